#!/bin/bash
# tools/take_seed.sh <src dir> <worktree> <seed id, e.g. C07-03> <check ids...> : keep a sub-agent's seeded change under
# seeded/<seed id>/ (patch, demonstration, meta.json + expected_checks), remove its worktree, and try it.
SRC="$1"; WT="$2"; SID="$3"; shift 3
cd "$(dirname "$0")/.."
mkdir -p seeded/$SID
cp "$SRC/patch.diff" "$SRC/meta.json" seeded/$SID/ || exit 2
cp "$SRC"/seed_demo* seeded/$SID/ 2>/dev/null
python3 - "$SID" "$@" <<'PY'
import json,sys
sid=sys.argv[1]; p=f'/verif/seeded/{sid}/meta.json'
try: m=json.load(open(p))
except Exception as e: m={"meta_unreadable": str(e)}
m['expected_checks']=sys.argv[2:]
json.dump(m,open(p,'w'),indent=2)
print(sid, '::', str(m.get('summary'))[:400])
PY
[ -d "$WT" ] && git -C /repo worktree remove --force "$WT"
tools/try_seed.sh /verif/seeded/$SID/patch.diff "$@" 2>&1 | grep -E '^==|kind=|patch' | cut -c1-220
