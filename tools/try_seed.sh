#!/bin/bash
# tools/try_seed.sh <patch.diff> <check ids...> : apply a seeded change to /repo, run the repo suite and the listed
# quick checks (or "--thorough ID"), then ALWAYS revert /repo. Prints one summary line per check.
set -u
PATCH="$1"; shift
REPO="${O2O_REPO:-/repo}"
VERIF="$(cd "$(dirname "$0")/.." && pwd)"
cd "$REPO" || exit 2
if [ -n "$(git status --porcelain)" ]; then echo "repo not clean"; exit 2; fi
git apply "$PATCH" || { echo "patch does not apply"; exit 2; }
# (after the revert the engine is rebuilt against the restored tree, so that a later `o2ov x` is not a stale seeded build)
trap 'git -C "$REPO" checkout -- . ; git -C "$REPO" clean -fdq -- o2o-impl/tests o2o-tests/tests 2>/dev/null; (cd "$VERIF/engine" && cargo build --release --offline -q 2>/dev/null)' EXIT
echo "== suite with change: $(cargo nextest run --workspace --no-fail-fast --offline 2>&1 | grep -E 'Summary|error:' | tail -1)"
TIER=quick
for id in "$@"; do
  if [ "$id" = "--thorough" ]; then TIER=thorough; continue; fi
  # the evidence file belongs to the unchanged tree: keep it out of the seeded run's way
  cp "$VERIF/evidence/$id.json" "/tmp/.evidence-$id-$$.json.keep" 2>/dev/null
  out=$(cd "$VERIF" && ./check "$id" --tier $TIER 2>&1); rc=$?
  mv "/tmp/.evidence-$id-$$.json.keep" "$VERIF/evidence/$id.json" 2>/dev/null
  nv=$(echo "$out" | grep -c '^VIOLATION')
  echo "== $id [$TIER] exit=$rc violation_lines=$nv :: $(echo "$out" | grep -E "^$id tier" | tail -1 | sed 's/.*known_hits/known_hits/')"
  echo "$out" | grep -A1 '^VIOLATION' | grep 'kind=' | sort | uniq -c | sort -rn | head -4
  TIER=quick
done
