#!/usr/bin/env python3
"""tools/seed_matrix.py [seed ids...] : re-verify every kept seeded change (or the listed ones) against the quick checks
that are expected to catch it (seeded/<id>/meta.json "expected_checks"), via tools/try_seed.sh (apply to /repo, run the
repo suite, run the checks, always revert).  Writes what was run and observed to meta.json "harness_verification" and
prints one line per seed.  Exit 1 if an expected check stayed silent or the suite failed with the change."""
import json, os, re, subprocess, sys, datetime
V = os.path.dirname(os.path.dirname(os.path.abspath(__file__)))
args = sys.argv[1:]
OUT = None
if args[:1] == ["--apply"]:
    # merge results produced elsewhere (a background snapshot run) into the metas of this tree
    res = json.load(open(args[1]))
    for s, hv in res.items():
        mp = f"{V}/seeded/{s}/meta.json"
        if os.path.exists(mp):
            meta = json.load(open(mp)); meta["harness_verification"] = hv
            json.dump(meta, open(mp, "w"), indent=2); open(mp, "a").write("\n")
    print(f"applied {len(res)} results"); sys.exit(0)
if args[:1] == ["--out"]:
    OUT = args[1]; args = args[2:]
seeds = args or sorted(d for d in os.listdir(f"{V}/seeded") if os.path.isdir(f"{V}/seeded/{d}"))
REPO = os.environ.get("O2O_REPO", "/repo")
allres = {}
bad = 0
for s in seeds:
    mp = f"{V}/seeded/{s}/meta.json"
    meta = json.load(open(mp))
    exp = meta.get("expected_checks") or [meta.get("property", s.split("-")[0])]
    cmd = [f"{V}/tools/try_seed.sh", f"{V}/seeded/{s}/patch.diff"] + exp
    out = subprocess.run(cmd, capture_output=True, text=True).stdout
    suite = re.search(r"== suite with change:\s*(.*)", out)
    suite = suite.group(1).strip() if suite else "?"
    res = {}
    for m in re.finditer(r"== (C\d\d) \[quick\] exit=(\d+) violation_lines=(\d+) :: (.*)", out):
        res[m.group(1)] = {"exit": int(m.group(2)), "violation_lines": int(m.group(3)), "summary": m.group(4).strip()[:160]}
    ok_suite = "1268 passed" in suite
    caught = [c for c in exp if res.get(c, {}).get("exit") == 1 and res[c]["violation_lines"] > 0]
    missed = [c for c in exp if c not in caught]
    meta["expected_checks"] = exp
    meta["harness_verification"] = {
        "ran": " ".join(["tools/try_seed.sh", f"seeded/{s}/patch.diff"] + exp),
        "repo_head": subprocess.run(["git", "-C", REPO, "rev-parse", "--short", "HEAD"], capture_output=True, text=True).stdout.strip(),
        "suite_with_change": suite, "checks": res, "caught_by": caught, "silent": missed,
    }
    json.dump(meta, open(mp, "w"), indent=2); open(mp, "a").write("\n")
    allres[s] = meta["harness_verification"]
    if OUT:
        json.dump(allres, open(OUT, "w"), indent=1)
    print(f"{s}: suite={'ok' if ok_suite else 'FAILS'} caught_by={caught} silent={missed}", flush=True)
    if missed or not ok_suite: bad = 1
sys.exit(bad)
