#!/bin/bash
# tools/take_round4.sh <ID> [extra check ids...] : keep both seeds of a round-10 agent as <ID>-08 (A) and <ID>-09 (B)
ID="$1"; shift
cd "$(dirname "$0")/.."
n=$(printf "%02d" $(( $(ls seeded | grep -c "^$ID-") + 1 )))
for X in A; do
  if [ -f /tmp/s10/$ID/$X/patch.diff ]; then
    tools/take_seed.sh /tmp/s10/$ID/$X /nonexistent $ID-$n $ID "$@" 2>&1 | grep -E '^== C|::' | cut -c1-330
  else
    echo "$ID $X: no patch"
  fi
  
done
[ -d /tmp/wt10-$ID ] && git -C /repo worktree remove --force /tmp/wt10-$ID
