#!/bin/bash
# tools/take_round4.sh <ID> [extra check ids...] : keep both seeds of a round-9 agent as <ID>-08 (A) and <ID>-09 (B)
ID="$1"; shift
cd "$(dirname "$0")/.."
n=12
for X in A B; do
  if [ -f /tmp/s9/$ID/$X/patch.diff ]; then
    tools/take_seed.sh /tmp/s9/$ID/$X /nonexistent $ID-$n $ID "$@" 2>&1 | grep -E '^== C|::' | cut -c1-330
  else
    echo "$ID $X: no patch"
  fi
  n=$((n+1))
done
[ -d /tmp/wt9-$ID ] && git -C /repo worktree remove --force /tmp/wt9-$ID
