#!/bin/bash
# tools/run_quick_all.sh [IDs...] : run the quick tier of every (or the listed) check on the tree as it is; one line each.
cd "$(dirname "$0")/.."
IDS="${*:-C01 C02 C03 C04 C05 C06 C07 C08 C09 C10 C11 C12 C13 C14 C15 C16 C17 C18 C19 C20}"
rc_all=0
for id in $IDS; do
  t0=$(date +%s); out=$(./check $id --tier quick 2>&1); rc=$?; t1=$(date +%s)
  [ $rc -ne 0 ] && rc_all=1
  echo "== $id quick exit=$rc wall=$((t1-t0))s :: $(echo "$out" | grep -E "^$id tier=" | tail -1 | sed 's/.*states=/states=/' | cut -c1-200)"
  echo "$out" | grep -E '^VIOLATION|MACHINERY' | head -3
done
exit $rc_all
