#!/bin/bash
# tools/run_thorough_all.sh [IDs...] : run the thorough tier of every (or the listed) check, one at a time; one summary line each.
cd "$(dirname "$0")/.."
IDS="${*:-C01 C02 C03 C04 C05 C06 C07 C08 C09 C10 C11 C12 C13 C14 C15 C16 C17 C18 C19 C20}"
mkdir -p replays/thorough_logs
for id in $IDS; do
  t0=$(date +%s)
  ./check $id --tier thorough > replays/thorough_logs/$id.log 2>&1; rc=$?
  t1=$(date +%s)
  echo "== $id thorough exit=$rc wall=$((t1-t0))s :: $(grep -E "^$id tier=" replays/thorough_logs/$id.log | tail -1 | cut -c1-260)"
  grep -E '^VIOLATION' replays/thorough_logs/$id.log | head -3
done
