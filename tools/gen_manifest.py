#!/usr/bin/env python3
"""Regenerates /verif/MANIFEST.json from the table below (single source of truth for claimed checks)."""
import json, os
V = os.path.dirname(os.path.dirname(os.path.abspath(__file__)))
props = [json.loads(l) for l in open(f"{V}/properties.jsonl")]

TECH_X = "exhaustive bounded enumeration of derive inputs (stateless deviation-bounded choice-tree exploration) run on the real implementation"
CHECKS = {
 "C01": dict(level="model_checking", design="DESIGN.md §8 C01",
   text="every struct case of a bounded grammar (shape x counterpart form x per-member instruction menu x ghosts x update x index permutations) is rendered semantics-first, compiled through the real #[derive(o2o::o2o)] by rustc and executed for all 12 conversion kinds and 2 value assignments; every destination leaf is compared with the reference model's expected literal",
   note="member count <= 3 (4 with the reduced menu); leaves are i32/i64; model M_sem transcribed from README; known defects of the pinned tree are listed in known_findings.json by cell-level tag predicates",
   technique=TECH_X + " + reference-model conformance through rustc and execution"),
 "C04": dict(level="model_checking", design="DESIGN.md §8 C04",
   text="every multiset of <= 3 of the 24 trait-instruction names over 1-2 counterparts in every order x 6 counterpart type forms x 4 error type forms x struct|enum: the multiset of generated impl headers (trait path, Self, argument, type Error), read through a real parser, must equal the reference tables M_appl o M_hdr transcribed from README:190-264",
   note="headers only (bodies are C01-C03); T::<X> and T<X> are the same type; in-process expansion (fallback lexer, syn 1)",
   technique=TECH_X + " + comparison with a reference table model"),
 "C17": dict(level="exploration", design="DESIGN.md §8 C17",
   text="every accepted input of the host corpus (semantic struct cases + feature-interaction products for structs, enums and enum->primitive hosts, ~1M inputs thorough) must expand to a token stream that parses (syn 2 full) as impl items only, each of one of the six traits with exactly one fn of the documented name/signature and `type Error` iff fallible",
   note="`parses` is judged by syn 2 here; rustc judges the compiled properties (C01-C03, C07, C11, C20); corpus expressions/types/patterns are well-formed by construction",
   technique=TECH_X + " + structural inspection of the output through a real parser"),
 "C16": dict(level="exploration", design="DESIGN.md §8 C16",
   text="bounded exhaustive enumeration of derive inputs (token soup per instruction, all pairs/triples of a 90-entry instruction catalogue over all holes of 4 hosts, all single-token mutations) run through the real derive under catch_unwind; no sampling",
   note="inputs lexed by proc_macro2's fallback lexer + syn 1 default features (the production path minus rustc's lexer); bounds: argument length <= 3 tokens, <= 3 instructions per input; panics already present on the pinned tree are listed in known_findings.json by (panic site, minimal cause class)",
   technique=TECH_X),
}
NOT_YET = "check not built yet (work in progress; see DESIGN.md §19 build order)"

checks = []
for p in props:
    c = CHECKS.get(p["id"])
    if not c: continue
    checks.append({
      "property_id": p["id"], "quick_cmd": f"./check {p['id']} --tier quick", "thorough_cmd": f"./check {p['id']} --tier thorough",
      "evidence_file": f"evidence/{p['id']}.json", "replay_cmd_template": f"./check {p['id']} --replay {{path}}", "engine": "o2ov",
      "level_claimed": {"category": c["level"], "text": c["text"], "design_ref": c["design"]},
      "level_note": c["note"], "technique": c["technique"]})
hooks_commits = [l.strip() for l in open(f"{V}/hooks_commits.txt")] if os.path.exists(f"{V}/hooks_commits.txt") else []
m = {
 "version": 1, "setup_cmd": "./setup.sh",
 "hooks": {"guard": "o2o_verif", "enable": "RUSTFLAGS=--cfg o2o_verif (only the C19 check builds with it, own target dir engine/target-hooks)",
           "baseline_off_cmd": "cd /repo && cargo nextest run --workspace --no-fail-fast --offline", "source_commits": hooks_commits, "add_only": True},
 "engines": [{"name": "o2ov", "path": "engine", "serves_properties": sorted(CHECKS), "kind_free_text": "Rust: exhaustive deviation-bounded choice-tree explorer (X) driving the real o2o_impl::expand::derive in-process (A) and the real proc-macro through rustc + execution (B), against a reference model written from the README"}],
 "checks": checks,
 "not_applicable": [{"property_id": p["id"], "reason": NOT_YET} for p in props if p["id"] not in CHECKS],
 "notes": "exit codes: 0 held / 1 VIOLATION / 2 machinery error. known_findings.json lists genuine defects of the pinned tree (status known) and repaired ones (status fixed, suppress nothing).",
}
json.dump(m, open(f"{V}/MANIFEST.json", "w"), indent=1)
print("claimed:", sorted(CHECKS))
