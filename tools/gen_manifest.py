#!/usr/bin/env python3
"""Regenerates /verif/MANIFEST.json from the table below (single source of truth for claimed checks)."""
import json, os
V = os.path.dirname(os.path.dirname(os.path.abspath(__file__)))
props = [json.loads(l) for l in open(f"{V}/properties.jsonl")]

TECH_X = "exhaustive bounded enumeration of derive inputs (stateless deviation-bounded choice-tree exploration) run on the real implementation"
CHECKS = {
 "C01": dict(level="model_checking", design="DESIGN.md §8 C01",
   text="every struct case of a bounded grammar (shape x counterpart form x per-member instruction menu x ghosts x update x index permutations) is rendered semantics-first, compiled through the real #[derive(o2o::o2o)] by rustc and executed for all 12 conversion kinds and 2 value assignments; every destination leaf is compared with the reference model's expected literal",
   note="member count <= 3 (4 with the reduced menu); leaves are i32/i64; model M_sem transcribed from README; known defects of the pinned tree are listed in known_findings.json by cell-level tag predicates",
   technique=TECH_X + " + reference-model conformance through rustc and execution"),
 "C02": dict(level="model_checking", design="DESIGN.md §8 C02",
   text="every enum case of a bounded grammar (1-3 variants x shape x 8-entry variant menu incl. ghost variants, type hints, variant ghosts, variant expressions x payload-field menu x enum-level ghosts in all three forms x default case) rendered semantics-first, compiled through the real derive by rustc and executed: every variant of the source type x 2 payload assignments x the 8 From/Into kinds compared with the model's expected destination",
   note="payload leaves are i32; by-reference kinds use the documented `*~` form; into_existing on enums is outside C02's quantifier",
   technique=TECH_X + " + reference-model conformance through rustc and execution"),
 "C03": dict(level="model_checking", design="DESIGN.md §8 C03",
   text="child direction (named and positional twins): every prefix-closed subset of a path universe with prefix-colliding sibling names x 2-4 flat members assigned to nodes x leaf instructions x path-addressed ghosts (incl. ghost-only nodes) x EVERY permutation of the flat members; parameterised #[parent] with nested typed sub-paths in every permutation; bare #[parent] layouts - compiled through the real derive and executed for all 12 kinds, results compared leaf by leaf with the model",
   note="a case is named all the way down or positional all the way down (tuple structs, index paths); leaves i32; deviation-bounded exploration (bound recorded in evidence)",
   technique=TECH_X + " + reference-model conformance through rustc and execution"),
 "C04": dict(level="model_checking", design="DESIGN.md §8 C04",
   text="every multiset of <= 3 of the 24 trait-instruction names over 1-2 counterparts in every order x 7 counterpart type forms x 4 error type forms x struct|enum: the multiset of generated impl headers (trait path, Self, argument, type Error), read through a real parser, must equal the reference tables M_appl o M_hdr transcribed from README:190-264",
   note="headers only (bodies are C01-C03); T::<X> and T<X> are the same type; in-process expansion (fallback lexer, syn 1)",
   technique=TECH_X + " + comparison with a reference table model"),
 "C17": dict(level="exploration", design="DESIGN.md §8 C17",
   text="every accepted input of the host corpus (semantic struct cases + feature-interaction products for structs, enums and enum->primitive hosts, ~1M inputs thorough) must expand to a token stream that parses (syn 2 full) as impl items only, each of one of the six traits with exactly one fn of the documented name/signature and `type Error` iff fallible",
   note="`parses` is judged by syn 2 here; rustc judges the compiled properties (C01-C03, C07, C11, C20); corpus expressions/types/patterns are well-formed by construction",
   technique=TECH_X + " + structural inspection of the output through a real parser"),
 "C05": dict(level="model_checking", design="DESIGN.md §8 C05",
   text="one member (named-struct field; and with <= 2 instructions: tuple-struct field, field of a named / tuple enum variant, an enum variant itself, a member nested inside #[parent(..)]) mapped to two counterparts with all 12 kinds each (24 impls) x every sequence of <= 3 member instructions (21 mapping names x {default, dedicated T, dedicated U} + 3 ghost names x 3) in every order, unique marker per instruction: (1) the impl of every (kind, fallibility, counterpart) contains exactly the marker of the instruction the precedence model M_prec designates; (2) removing any instruction leaves every impl where it is not the winner token-identical",
   note="M_prec transcribed from the C05 statement; impls located by (trait, Self, argument) through a real parser; runtime cross-check of winners is part of C01/C07's compiled spaces",
   technique=TECH_X + " + comparison with a reference precedence model and a metamorphic non-interference oracle"),
 "C14": dict(level="model_checking", design="DESIGN.md §8 C14",
   text="a reference state machine M_rep (3 states per member list, one template slot per trait-instruction name) computes the written-out input for every event sequence (plain / own / repeat(cats) / skip_repeat / stop_repeat / stop+repeat; permeating and not; variant level; trait level with vars/update/return/default-case) up to the bound; the real expansion of the input with repeat must be token-identical to the real expansion of the written-out input",
   note="M_rep written from the statement and README; conflicting sequences are pruned (C15 covers their diagnostics); bounds: <= 4 (5) struct members, <= 3 variants x 3 fields, <= 4 trait instructions",
   technique="explicit enumeration of event sequences of a reference state machine + conformance of every trace against the real implementation (token equality)"),
 "C06": dict(level="exploration", design="DESIGN.md §8 C06",
   text="every accepted two-counterpart input of the feature-interaction corpus: for each counterpart X the impls whose trait argument is X must be token-identical to the complete expansion of the projected input (all instructions for / dedicated to the other counterpart deleted) - the implementation is its own reference",
   note="impls are attributed to a counterpart by the trait's type argument; bounded: <= 3 members, 2 counterparts, deviation bound 4 (quick) / 6 (thorough)",
   technique=TECH_X + " with a metamorphic (projection) oracle"),
 "C07": dict(level="model_checking", design="DESIGN.md §8 C07",
   text="the struct / enum / flattening case spaces with all flavours requested, compiled through the real derive and executed with a purely differential oracle: by-ref == owned, Try == Ok(infallible) against a layout-identical twin, into_existing == into on every mapped leaf and untouched elsewhere; plus a `?`-raising space (every subset of raising members x every subset of trigger values): the fallible flavours return the error of the first raising member",
   note="values compared through normalised Debug text; positional-index disagreements between into and into_existing already present on the pinned tree are listed as known findings",
   technique=TECH_X + " with differential oracles between conversion flavours, through rustc and execution"),
 "C08": dict(level="model_checking", design="DESIGN.md §8 C08",
   text="part A: 24 instruction names x 3 hosts x every subset and order of {attribute, impl_attribute, inner_attribute, vars} x terminal param: each attribute sits on the fn / impl / fn-body head of exactly the impls the instruction produces and nowhere else; part B through rustc + execution: vars evaluated once, in order, before the result and visible to member expressions (logging helper), ..update supplies exactly the unprovided leaves, return replaces the body, for every direction group and with a bare #[parent] member",
   note="placement read through a real parser; behaviour observed at run time only (layout of the body is free)",
   technique=TECH_X + " + structural placement oracle and run-time behaviour oracle"),
 "C09": dict(level="model_checking", design="DESIGN.md §8 C09",
   text="every enum of 1-3 variants with arms from {literal, range pattern, or-pattern, guarded binding pattern, wildcard, README catch-all, ghost variant} over boundary points, distinct and overlapping, every order, counterparts u8 / i8 / &'static str alias, owned and by-ref kinds, infallible and fallible: compiled through the real derive and executed over the WHOLE primitive domain against a first-match-in-declaration-order model; Into yields the literal; round trip where literals are distinct",
   note="all 256 values of u8/i8 are evaluated for every enum; strings over a closed set plus one outside value",
   technique=TECH_X + " + reference-model conformance over the complete value domain, through rustc and execution"),
 "C10": dict(level="model_checking", design="DESIGN.md §8 C10",
   text="every token tree over an 18-atom alphabet (incl. literals containing ~ and @, lifetimes, joint punctuation, closures, macros, turbofish) with (), [], {}, None-delimited groups up to the stated length/depth in each of 24 accepting positions: an independent substitution over the flattened atom list must occur as a contiguous subsequence of every impl the instruction applies to, and the marker must be absent from the impls it does not apply to",
   note="`~` only where the README allows it; what `~` stands for per position transcribed from README 'Inline expressions' and the statement; in-process expansion with real proc_macro2 groups",
   technique=TECH_X + " + comparison with an independent substitution model"),
 "C11": dict(level="exploration", design="DESIGN.md §8 C11",
   text="every generic parameter list built from lifetimes, type parameters with/without bounds and defaults, const parameters (<= 4, every legal order) x own where clause x counterpart path forms (mirror, concrete arguments, counterpart-only lifetime with and without own parameters, result borrowing from the reference) x #[where_clause] none/default/dedicated x all 12 kinds: rustc must accept every generated impl and a test body borrows stack-local data through every by-reference conversion",
   note="oracle = rustc's type and borrow checker on the real macro output",
   technique=TECH_X + " with the compiler's type checker as oracle"),
 "C12": dict(level="exploration", design="DESIGN.md §8 C12",
   text="every input of the host corpus x every non-empty subset (bounded) of its shortcut occurrences rewritten to the documented basic instructions: multiset of generated impl items and accept/reject decision must be identical",
   note="token-level comparison; rewrite-deviation bound 2 (quick) / 3 (thorough) on top of the corpus bound",
   technique=TECH_X + " with a metamorphic (rewrite) oracle"),
 "C13": dict(level="exploration", design="DESIGN.md §8 C13",
   text="every input of the host corpus x every respelling (bare vs #[o2o(x(..))], joining adjacent instructions into one list, trailing comma) up to the deviation bound: generated impl items and accept/reject decision must equal those of the default spelling",
   note="the list of instructions that have a bare form is read from o2o-macros/src/lib.rs at start-up; diagnostics compared modulo the documented allow_unknown suffix",
   technique=TECH_X + " with a metamorphic (respelling) oracle"),
 "C15": dict(level="fault_enumeration", design="DESIGN.md §8 C15",
   text="6 valid hosts x ~65 concrete misuse injections covering every class of the statement x every admissible position x every pair x host parameter forms (update / vars / attribute) (+ the name rule for positional members decided both ways by M_prec over 24 trait names x member instructions x dedication x form; accept-only sweeps over the semantic spaces): verdict must be Err and every injected fault must be named by a diagnostic (salient key words); fault-free hosts and the semantic struct space (valid by construction) must be accepted",
   note="`names the problem` = contains the class's salient identifiers/key words (OR of AND-sets), not full wording",
   technique="exhaustive fault injection (every class x every position x every pair) on the real implementation against a diagnostic reference table"),
 "C18": dict(level="exploration", design="DESIGN.md §8 C18",
   text="the union corpus (host corpus, C16 instruction pairs and single-token mutations, attribute-form space, child_parents separator space, token-forms: 19 token-forwarding holes x ~280 exotic attribute contents / literals / patterns / expressions / types / where predicates) expanded by two builds of the same harness (o2o-impl with syn 1 / with syn 2) and joined by key: equal verdicts, identical token streams, equal sets of o2o-authored diagnostics",
   note="a DeriveInput parse failure of the parser library counts as reject; parser-library wording is exempt; both builds use proc_macro2's fallback lexer",
   technique=TECH_X + " with a differential oracle between the two back-end builds"),
 "C19": dict(level="model_checking", design="DESIGN.md §8 C19, §6",
   text="hooks build: every HashMap/HashSet of o2o-impl is a stand-in whose iteration order is a choice point of the explorer; for every input (incl. all pairs of misuse injections = several diagnostics at once) every iteration order of every iterated container is enumerated while the real derive runs and the rendered result must be identical; plus guard-off runs in K fresh processes under three environments (inherited, empty, cargo-like with odd values) must be byte-equal to the explored singleton (labelled sampling over hash seeds); plus a getenv-interposed run (LD_PRELOAD shim built with cc): every variable read only while inputs are expanded is then varied (unset, empty, 1, o2o, true, /tmp) and a change of any output is a violation",
   note="hash-container order and environment variables are owned by the harness (order oracle; getenv tracing, recorded as getenv_traced in the evidence - when cc is unavailable only the three environment profiles remain); clock, files and statics are not intercepted (none in o2o-impl, checked by reading); a std::collections import that bypasses the cfg-switched use lines is only visible to the fresh-process runs",
   technique="stateless model checking of the real code under a controlled order oracle (exhaustive enumeration of iteration orders) + conformance runs in fresh processes"),
 "C16": dict(level="exploration", design="DESIGN.md §8 C16",
   text="bounded exhaustive enumeration of derive inputs (token-forms; token soup per instruction, all pairs/triples of a 90-entry instruction catalogue over all holes of 4 hosts, all single-token mutations) run through the real derive under catch_unwind; no sampling",
   note="inputs lexed by proc_macro2's fallback lexer + syn 1 default features (the production path minus rustc's lexer); bounds: argument length <= 3 tokens, <= 3 instructions per input; panics already present on the pinned tree are listed in known_findings.json by (panic site, minimal cause class)",
   technique=TECH_X),
 "C20": dict(level="exploration", design="DESIGN.md §8 C20",
   text="part A: every accepted input of the host corpus: no std/alloc identifier, every ::-rooted path rooted at ::core, every other identifier comes from the input, is bound locally (read through a real parser) or is a keyword / core-prelude / documented skeleton name; part B: generated conversions compiled by rustc inside a #![no_std] crate and run",
   note="local variable names are outside the statement; part A in-process, part B through rustc",
   technique=TECH_X + " + provenance analysis of the output through a real parser; rustc as the judge for no_std"),
}
NOT_YET = "check not built yet (work in progress; see DESIGN.md §19 build order)"

checks = []
for p in props:
    c = CHECKS.get(p["id"])
    if not c: continue
    checks.append({
      "property_id": p["id"], "quick_cmd": f"./check {p['id']} --tier quick", "thorough_cmd": f"./check {p['id']} --tier thorough",
      "evidence_file": f"evidence/{p['id']}.json", "replay_cmd_template": f"./check {p['id']} --replay {{path}}", "engine": "o2ov",
      "level_claimed": {"category": c["level"], "text": c["text"], "design_ref": c["design"]},
      "level_note": c["note"], "technique": c["technique"]})
hooks_commits = [l.strip() for l in open(f"{V}/hooks_commits.txt")] if os.path.exists(f"{V}/hooks_commits.txt") else []
m = {
 "version": 1, "setup_cmd": "./setup.sh",
 "hooks": {"guard": "o2o_verif", "enable": "RUSTFLAGS=--cfg o2o_verif (only the C19 check builds with it, own target dir engine/target-hooks)",
           "baseline_off_cmd": "cd /repo && cargo nextest run --workspace --no-fail-fast --offline", "source_commits": hooks_commits, "add_only": True},
 "engines": [{"name": "o2ov", "path": "engine", "serves_properties": sorted(CHECKS), "kind_free_text": "Rust: exhaustive deviation-bounded choice-tree explorer (X) driving the real o2o_impl::expand::derive in-process (A) and the real proc-macro through rustc + execution (B), against a reference model written from the README"}],
 "checks": checks,
 "not_applicable": [{"property_id": p["id"], "reason": NOT_YET} for p in props if p["id"] not in CHECKS],
 "notes": "exit codes: 0 held / 1 VIOLATION / 2 machinery error. known_findings.json lists genuine defects of the pinned tree (status known) and repaired ones (status fixed, suppress nothing).",
}
json.dump(m, open(f"{V}/MANIFEST.json", "w"), indent=1)
print("claimed:", sorted(CHECKS))
