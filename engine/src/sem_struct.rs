//! Semantics-first generator of struct cases (C01, C07, and the host corpus of the metamorphic checks).
//!
//! A case is designed from its meaning (which counterpart slot every member corresponds to, through which
//! expression, which members/slots exist on one side only) and only then rendered into o2o instructions, so the
//! expected value of every destination leaf is known by construction (DESIGN §4.1).

use crate::explore::Ctx;
use crate::item::{Field, Instr, Item, Shape};
use std::fmt::Write;

#[derive(Clone, Copy, Debug, PartialEq, Eq, Hash)]
pub enum CpForm {
    /// no hint; counterpart is the same kind of struct
    Same,
    /// no hint, named deriving struct, tuple counterpart addressed by index renames (`T { 0: .., 1: .. }`, README "Tuple structs")
    SameIdx,
    AsStruct,
    AsTuple,
    BareTuple,
    AsUnit,
}

impl CpForm {
    pub fn tag(self) -> &'static str {
        match self {
            CpForm::Same => "same",
            CpForm::SameIdx => "same-idx",
            CpForm::AsStruct => "as-struct",
            CpForm::AsTuple => "as-tuple",
            CpForm::BareTuple => "bare-tuple",
            CpForm::AsUnit => "as-unit",
        }
    }
}

/// member menu (DESIGN §8 C01)
#[derive(Clone, Copy, Debug, PartialEq, Eq, Hash)]
pub enum MI {
    Plain,
    Rename,
    ExprTilde,   // map(~ + M)
    AtPair,      // from(@.<slot> + M) + into(<slot>, @.<member> + M)
    RenameExpr,  // map(x, ~ + M)
    AsType,      // as_type(i64)
    AsTypeRename,
    Ghost,       // ghost({M}): S-only member with default
    GhostNoDefault, // ghost: S-only, needs `..update` on From (or only Into kinds)
    GhostOwned,  // ghost_owned({M}) + struct-level ghosts_owned(slot: {M2})
    GhostRef,
    /// `map(slot, ~ + M)` for the infallible kinds and `try_map(slot, ~ + M2)` for the fallible ones
    FalliblePair,
}

pub const MENU_FULL: &[MI] = &[MI::Plain, MI::Rename, MI::ExprTilde, MI::Ghost, MI::RenameExpr, MI::AtPair, MI::AsType, MI::AsTypeRename, MI::GhostNoDefault, MI::GhostOwned, MI::GhostRef, MI::FalliblePair];
pub const MENU_SMALL: &[MI] = &[MI::Plain, MI::Rename, MI::ExprTilde, MI::Ghost];

impl MI {
    pub fn tag(self) -> &'static str {
        match self {
            MI::Plain => "none",
            MI::Rename => "rename",
            MI::ExprTilde => "expr~",
            MI::AtPair => "expr@",
            MI::RenameExpr => "rename+expr",
            MI::AsType => "as_type",
            MI::AsTypeRename => "as_type+rename",
            MI::Ghost => "ghost",
            MI::GhostNoDefault => "ghost-nodefault",
            MI::GhostOwned => "ghost_owned",
            MI::GhostRef => "ghost_ref",
            MI::FalliblePair => "fallible-pair",
        }
    }
    pub fn is_ghost(self) -> bool {
        matches!(self, MI::Ghost | MI::GhostNoDefault)
    }
    fn has_rename(self) -> bool {
        matches!(self, MI::Rename | MI::RenameExpr | MI::AsTypeRename | MI::AtPair | MI::FalliblePair)
    }
}

#[derive(Clone, Debug)]
pub struct Mem {
    pub name: String, // "a".. or index "0"..
    pub mi: MI,
    pub marker: i64,  // unique per instruction instance
    pub marker2: i64, // second marker (ghosts_owned/ref entry)
    pub slot: Option<usize>, // index into `slots` of the counterpart slot this member maps to
}

#[derive(Clone, Debug)]
pub enum SlotSrc {
    Member(usize),
    /// counterpart-only, provided by struct-level #[ghosts(..)]
    Ghosts(i64),
    /// counterpart-only, provided by `..update`
    Extra,
}

#[derive(Clone, Debug)]
pub struct Slot {
    pub name: String, // field name or index in the counterpart
    pub src: SlotSrc,
    pub wide: bool, // i64 (as_type)
}

#[derive(Clone, Debug)]
pub struct SCase {
    pub shape: Shape,
    pub form: CpForm,
    pub members: Vec<Mem>,
    pub slots: Vec<Slot>, // counterpart layout in declaration order
    pub cp_named: bool,
    pub update: bool,
    /// struct-level ghosts written as a default DECOY instruction (wrong values) followed by the real ones dedicated to
    /// each counterpart: the dedicated instruction must win whatever the order (seeds C01-03, C02-03, C03-03)
    pub decoy: bool,
    pub tags: Vec<String>,
}

pub struct Opts {
    pub max_n: usize,
    pub menu: &'static [MI],
    pub max_ghosts: usize,
    pub allow_update: bool,
    pub permute_idx: bool,
}

fn forms_for(shape: Shape) -> &'static [CpForm] {
    match shape {
        Shape::Named => &[CpForm::Same, CpForm::AsTuple, CpForm::SameIdx, CpForm::BareTuple, CpForm::AsStruct, CpForm::AsUnit],
        Shape::Tuple => &[CpForm::Same, CpForm::AsStruct, CpForm::BareTuple, CpForm::AsTuple, CpForm::AsUnit],
        // (Unit, SameIdx): no hint + index #[ghosts] entries: a tuple counterpart filled from the ghosts alone (seed C01-02)
        Shape::Unit => &[CpForm::AsUnit, CpForm::Same, CpForm::AsStruct, CpForm::AsTuple, CpForm::SameIdx],
    }
}

const MEMBER_NAMES: [&str; 5] = ["a", "b", "c", "d", "e"];
const SLOT_NAMES: [&str; 5] = ["x", "y", "z", "w", "v"];
const GHOST_NAMES: [&str; 3] = ["g", "h", "k"];

pub fn gen(ctx: &mut Ctx, o: &Opts) -> Option<SCase> {
    let shape = *[Shape::Named, Shape::Tuple, Shape::Unit].get(ctx.choose(3)).unwrap();
    let forms = forms_for(shape);
    let form = forms[ctx.choose(forms.len())];
    let n = if shape == Shape::Unit { 0 } else { 1 + ctx.choose(o.max_n) };
    let cp_named = match (shape, form) {
        (Shape::Named, CpForm::Same | CpForm::AsStruct) => true,
        (Shape::Tuple, CpForm::AsStruct) => true,
        (Shape::Unit, CpForm::Same | CpForm::AsStruct) => true,
        _ => false,
    };
    let cp_positional = !cp_named && form != CpForm::AsUnit;
    let mut marker = 0i64;
    let mut next_marker = || {
        marker += 1;
        marker
    };
    let mut members: Vec<Mem> = vec![];
    for k in 0..n {
        let mi = o.menu[ctx.choose(o.menu.len())];
        let name = if shape == Shape::Named { MEMBER_NAMES[k].to_string() } else { k.to_string() };
        // legality of the menu item for this (shape, form)
        match form {
            CpForm::AsUnit => {
                if !mi.is_ghost() {
                    return ctx.reject(); // a unit counterpart has no slots
                }
            }
            _ => {}
        }
        if matches!(mi, MI::GhostOwned | MI::GhostRef) && !(shape == Shape::Named && form == CpForm::Same) {
            return ctx.reject();
        }
        // named deriving struct -> positional counterpart: README style = index rename on every mapped member
        if shape == Shape::Named && cp_positional && !mi.is_ghost() && !mi.has_rename() {
            return ctx.reject();
        }
        // tuple deriving struct -> named counterpart: names are required on every mapped member
        if shape == Shape::Tuple && cp_named && !mi.is_ghost() && !mi.has_rename() {
            return ctx.reject();
        }
        // same-kind positional (tuple -> tuple): an ident rename is meaningless; index renames are allowed
        members.push(Mem { name, mi, marker: next_marker(), marker2: next_marker(), slot: None });
    }
    if form == CpForm::SameIdx && shape != Shape::Unit && members.iter().all(|m| m.mi.is_ghost()) {
        return ctx.reject();
    }
    // struct-level ghosts entries (counterpart-only slots)
    let n_ghosts = ctx.choose(o.max_ghosts + 1);
    if form == CpForm::AsUnit && n_ghosts > 0 {
        return ctx.reject();
    }
    if shape == Shape::Unit && form != CpForm::AsUnit && n_ghosts == 0 {
        // unit struct -> non-unit counterpart needs at least one slot
        if form != CpForm::Same {
            return ctx.reject();
        }
    }
    if shape == Shape::Unit && form == CpForm::Same && n_ghosts > 0 {
        return ctx.reject(); // without a hint the counterpart of a unit struct is a unit struct
    }
    if members.iter().any(|m| matches!(m.mi, MI::GhostOwned | MI::GhostRef)) && n_ghosts > 0 {
        return ctx.reject(); // a default #[ghosts] next to #[ghosts_owned]/#[ghosts_ref] would be two default instructions for one kind
    }
    if form == CpForm::BareTuple && (shape == Shape::Unit) {
        return ctx.reject();
    }
    let update = o.allow_update && ctx.flag();
    // struct update syntax needs a named literal: the deriving struct for From (whatever the counterpart looks like - seed
    // C08-06), the counterpart for Into (a positional counterpart gets the update on its From instructions only)
    if update && !cp_named && matches!(form, CpForm::BareTuple | CpForm::AsUnit) {
        return ctx.reject();
    }
    if update && shape != Shape::Named {
        return ctx.reject();
    }
    if members.iter().any(|m| m.mi == MI::GhostNoDefault) && !update {
        return ctx.reject(); // From kinds are always requested: a ghost without default needs ..update
    }
    // lay out the counterpart
    let mapped: Vec<usize> = (0..n).filter(|k| !members[*k].mi.is_ghost()).collect();
    let mut slots: Vec<Slot> = vec![];
    if cp_named {
        for &k in &mapped {
            let m = &members[k];
            let name = if m.mi.has_rename() { SLOT_NAMES[k].to_string() } else { m.name.clone() };
            slots.push(Slot { name, src: SlotSrc::Member(k), wide: matches!(m.mi, MI::AsType | MI::AsTypeRename) });
        }
        for g in 0..n_ghosts {
            slots.push(Slot { name: GHOST_NAMES[g].to_string(), src: SlotSrc::Ghosts(next_marker()), wide: false });
        }
        if update {
            slots.push(Slot { name: "u".into(), src: SlotSrc::Extra, wide: false });
        }
        // counterpart declaration order: reversed when asked (named fields: order must not matter)
        if ctx.flag() {
            slots.reverse();
        }
    } else if cp_positional {
        // positions: a permutation of the mapped members (+ ghosts entries) over 0..k
        let total = mapped.len() + n_ghosts;
        if total == 0 {
            return ctx.reject();
        }
        // where do the ghosts entries go: trailing (default) or leading
        let ghosts_leading = n_ghosts > 0 && ctx.flag();
        let any_renamed_idx = mapped.iter().any(|k| members[*k].mi.has_rename());
        let all_renamed_idx = mapped.iter().all(|k| members[*k].mi.has_rename());
        // permutation of the member positions is only expressible when every mapped member carries an index rename
        let perm: Vec<usize> = if o.permute_idx && all_renamed_idx && mapped.len() > 1 { ctx.permutation(mapped.len()) } else { (0..mapped.len()).collect() };
        let _ = any_renamed_idx;
        let mut pos_of_member: Vec<(usize, usize)> = vec![]; // (member, position)
        for (i, &k) in mapped.iter().enumerate() {
            let p = perm[i] + if ghosts_leading { n_ghosts } else { 0 };
            pos_of_member.push((k, p));
        }
        let mut tmp: Vec<Option<Slot>> = (0..total).map(|_| None).collect();
        for (k, p) in pos_of_member {
            let m = &members[k];
            tmp[p] = Some(Slot { name: p.to_string(), src: SlotSrc::Member(k), wide: matches!(m.mi, MI::AsType | MI::AsTypeRename) });
        }
        for g in 0..n_ghosts {
            let p = if ghosts_leading { g } else { mapped.len() + g };
            tmp[p] = Some(Slot { name: p.to_string(), src: SlotSrc::Ghosts(next_marker()), wide: false });
        }
        slots = tmp.into_iter().map(|s| s.unwrap()).collect();
        if ghosts_leading && shape == Shape::Tuple && !all_renamed_idx {
            return ctx.reject(); // members would need index renames to skip the leading ghost positions
        }
    }
    for (j, s) in slots.iter().enumerate() {
        if let SlotSrc::Member(k) = s.src {
            members[k].slot = Some(j);
        }
    }
    let mut tags = vec![
        format!("derive={}", match shape { Shape::Named => "named", Shape::Tuple => "tuple", Shape::Unit => "unit" }),
        format!("form={}", form.tag()),
        format!("cp={}", if cp_named { "named" } else if cp_positional { "positional" } else { "unit" }),
        format!("n={}", n),
        format!("ghosts={}", n_ghosts),
    ];
    if update {
        tags.push("update".into());
    }
    for (k, m) in members.iter().enumerate() {
        tags.push(format!("m{}={}", k, m.mi.tag()));
        tags.push(format!("has:{}", m.mi.tag()));
    }
    // positional bookkeeping that the known defects depend on
    if cp_positional {
        let mut emitted = 0usize;
        for (k, m) in members.iter().enumerate() {
            if m.mi.is_ghost() {
                if members[k + 1..].iter().any(|x| !x.mi.is_ghost()) {
                    tags.push("ghost-before-mapped".into());
                }
                continue;
            }
            let pos: usize = slots[m.slot.unwrap()].name.parse().unwrap();
            if pos != emitted {
                tags.push("slot!=emitted-position".into());
            }
            if pos != k {
                tags.push("slot!=declared-index".into());
            }
            emitted += 1;
        }
        if slots.iter().take_while(|s| matches!(s.src, SlotSrc::Ghosts(_))).count() > 0 {
            tags.push("ghosts-leading".into());
        }
    }
    let decoy = n_ghosts > 0 && form != CpForm::BareTuple && ctx.flag();
    if decoy {
        tags.push("ghosts-decoy".into());
    }
    tags.sort();
    tags.dedup();
    Some(SCase { shape, form, members, slots, cp_named, update, decoy, tags })
}

/// which trait instructions the rendered deriving type carries
#[derive(Clone, Copy, Debug, PartialEq, Eq)]
pub enum Flavour {
    /// `map` + `into_existing` on T
    Infallible,
    /// `try_map` + `try_into_existing` on T with error type Er
    Fallible,
    /// all 12 kinds: infallible on T, fallible on the twin Tf
    Both,
}

impl SCase {
    fn hint(&self) -> &'static str {
        match self.form {
            CpForm::Same | CpForm::SameIdx | CpForm::BareTuple => "",
            CpForm::AsStruct => " as {}",
            CpForm::AsTuple => " as ()",
            CpForm::AsUnit => " as Unit",
        }
    }
    pub fn cp_type(&self, twin: bool) -> String {
        if self.form == CpForm::BareTuple {
            format!("({})", self.slots.iter().map(|s| if s.wide { "i64, " } else { "i32, " }).collect::<String>().trim_end_matches(", ").to_string() + if self.slots.len() == 1 { "," } else { "" })
        } else if twin {
            "Tf".into()
        } else {
            "T".into()
        }
    }
    fn slot_name(&self, m: &Mem) -> String {
        self.slots[m.slot.unwrap()].name.clone()
    }

    /// the deriving item
    pub fn item(&self, name: &str, fl: Flavour) -> Item {
        let mut fields = vec![];
        let mut type_level_extra: Vec<Instr> = vec![];
        for m in &self.members {
            let mut f = if self.shape == Shape::Named { Field::named(&m.name, "i32") } else { Field::pos("i32") };
            let mk = m.marker;
            match m.mi {
                MI::Plain => {}
                MI::Rename => f.attrs.push(Instr::new("map", None, &self.slot_name(m))),
                MI::ExprTilde => f.attrs.push(Instr::new("map", None, &format!("~ + {}", mk))),
                MI::RenameExpr => f.attrs.push(Instr::new("map", None, &format!("{}, ~ + {}", self.slot_name(m), mk))),
                MI::AtPair => {
                    f.attrs.push(Instr::new("from", None, &format!("@.{} + {}", self.slot_name(m), mk)));
                    f.attrs.push(Instr::new("into", None, &format!("{}, @.{} + {}", self.slot_name(m), m.name, mk)));
                }
                MI::AsType => f.attrs.push(Instr::new("as_type", None, "i64")),
                MI::AsTypeRename => f.attrs.push(Instr::new("as_type", None, &format!("{}, i64", self.slot_name(m)))),
                MI::Ghost => f.attrs.push(Instr::new("ghost", None, &format!("{{{}}}", mk))),
                MI::GhostNoDefault => f.attrs.push(Instr::word("ghost")),
                MI::GhostOwned => {
                    f.attrs.push(Instr::new("ghost_owned", None, &format!("{{{}}}", mk)));
                    type_level_extra.push(Instr::new("ghosts_owned", None, &format!("{}: {{{}}}", m.name, m.marker2)));
                }
                MI::FalliblePair => {
                    f.attrs.push(Instr::new("map", None, &format!("{}, ~ + {}", self.slot_name(m), mk)));
                    f.attrs.push(Instr::new("try_map", None, &format!("{}, ~ + {}", self.slot_name(m), m.marker2)));
                }
                MI::GhostRef => {
                    f.attrs.push(Instr::new("ghost_ref", None, &format!("{{{}}}", mk)));
                    type_level_extra.push(Instr::new("ghosts_ref", None, &format!("{}: {{{}}}", m.name, m.marker2)));
                }
            }
            fields.push(f);
        }
        let mut it = Item::new_struct(name, self.shape, fields);
        let upd_from = if self.update { "| ..sbase()" } else { "" };
        let upd_into = if self.update && self.cp_named { "| ..tbase()" } else { "" };
        let upd_into_f = if self.update && self.cp_named { "| ..tfbase()" } else { "" };
        let h = self.hint();
        let push_set = |it: &mut Item, fallible: bool, cp: &str| {
            let (from, into, ex, err) = if fallible { ("try_from", "try_into", "try_into_existing", ", Er") } else { ("from", "into", "into_existing", "") };
            let ui = if cp == "Tf" { upd_into_f } else { upd_into };
            if self.update {
                it.attrs.push(Instr::new(from, None, &format!("{}{}{}{}", cp, h, err, upd_from)));
                it.attrs.push(Instr::new(into, None, &format!("{}{}{}{}", cp, h, err, ui)));
            } else {
                it.attrs.push(Instr::new(if fallible { "try_map" } else { "map" }, None, &format!("{}{}{}", cp, h, err)));
            }
            it.attrs.push(Instr::new(ex, None, &format!("{}{}{}", cp, h, err)));
        };
        match fl {
            Flavour::Infallible => push_set(&mut it, false, &self.cp_type(false)),
            Flavour::Fallible => push_set(&mut it, true, &self.cp_type(false)),
            Flavour::Both => {
                push_set(&mut it, false, &self.cp_type(false));
                push_set(&mut it, true, &self.cp_type(true));
            }
        }
        // struct-level ghosts
        let gs: Vec<String> = self.slots.iter().filter_map(|s| if let SlotSrc::Ghosts(mk) = s.src { Some(format!("{}: {{{}}}", s.name, mk)) } else { None }).collect();
        if !gs.is_empty() && self.decoy {
            let decoys: Vec<String> = self.slots.iter().filter_map(|s| if let SlotSrc::Ghosts(mk) = s.src { Some(format!("{}: {{{}}}", s.name, 9900 + mk)) } else { None }).collect();
            it.attrs.push(Instr::new("ghosts", None, &decoys.join(", ")));
            let cps: Vec<String> = match fl {
                Flavour::Infallible | Flavour::Fallible => vec![self.cp_type(false)],
                Flavour::Both => vec![self.cp_type(false), self.cp_type(true)],
            };
            for cp in cps {
                it.attrs.push(Instr::new("ghosts", Some(&cp), &gs.join(", ")));
            }
        } else if !gs.is_empty() {
            it.attrs.push(Instr::new("ghosts", None, &gs.join(", ")));
        }
        for nm in ["ghosts_owned", "ghosts_ref"] {
            let bodies: Vec<String> = type_level_extra.iter().filter(|i| i.name == nm).map(|i| i.body.clone()).collect();
            if !bodies.is_empty() {
                it.attrs.push(Instr::new(nm, None, &bodies.join(", ")));
            }
        }
        it
    }

    /// definition of a counterpart type named `name` (nothing for bare tuples)
    pub fn cp_def(&self, name: &str) -> String {
        if self.form == CpForm::BareTuple {
            return String::new();
        }
        let derives = "#[derive(Clone, Debug, PartialEq, Default)]";
        if self.form == CpForm::AsUnit || self.slots.is_empty() {
            return format!("{} pub struct {};\n", derives, name);
        }
        let ty = |s: &Slot| if s.wide { "i64" } else { "i32" };
        if self.cp_named {
            format!("{} pub struct {} {{ {} }}\n", derives, name, self.slots.iter().map(|s| format!("pub {}: {}", s.name, ty(s))).collect::<Vec<_>>().join(", "))
        } else {
            format!("{} pub struct {}({});\n", derives, name, self.slots.iter().map(|s| format!("pub {}", ty(s))).collect::<Vec<_>>().join(", "))
        }
    }

    // ----- values -------------------------------------------------------------------------------------------
    pub fn tval(&self, j: usize, assign: usize) -> i64 {
        if assign == 0 { 1000 * (j as i64 + 1) } else { 1000 * ((self.slots.len() - j) as i64) + 10_000 }
    }
    pub fn sval(&self, k: usize, assign: usize) -> i64 {
        if assign == 0 { 100_000 + 1000 * (k as i64 + 1) } else { 200_000 + 1000 * ((self.members.len() - k) as i64) }
    }
    pub const PRE: i64 = 900_000; // pre-existing destination leaves (into_existing)
    pub const TBASE: i64 = 800_000; // ..tbase()
    pub const SBASE: i64 = 700_000; // ..sbase()

    pub fn cp_literal(&self, name: &str, vals: &[i64]) -> String {
        let lit = |j: usize| if self.slots[j].wide { format!("{}i64", vals[j]) } else { format!("{}", vals[j]) };
        if self.form == CpForm::BareTuple {
            let inner: Vec<String> = (0..self.slots.len()).map(lit).collect();
            return format!("({}{})", inner.join(", "), if inner.len() == 1 { "," } else { "" });
        }
        if self.form == CpForm::AsUnit || self.slots.is_empty() {
            return name.to_string();
        }
        if self.cp_named {
            format!("{} {{ {} }}", name, (0..self.slots.len()).map(|j| format!("{}: {}", self.slots[j].name, lit(j))).collect::<Vec<_>>().join(", "))
        } else {
            format!("{}({})", name, (0..self.slots.len()).map(lit).collect::<Vec<_>>().join(", "))
        }
    }
    pub fn s_literal(&self, name: &str, vals: &[i64]) -> String {
        match self.shape {
            Shape::Unit => name.to_string(),
            Shape::Named => format!("{} {{ {} }}", name, self.members.iter().enumerate().map(|(k, m)| format!("{}: {}", m.name, vals[k])).collect::<Vec<_>>().join(", ")),
            Shape::Tuple => format!("{}({})", name, vals.iter().map(|v| v.to_string()).collect::<Vec<_>>().join(", ")),
        }
    }

    /// M_sem: expected deriving-struct leaves after a From conversion of a counterpart holding `tv`
    pub fn expect_from(&self, tv: &[i64], owned: bool) -> Vec<i64> {
        self.expect_from_f(tv, owned, false)
    }
    pub fn expect_from_f(&self, tv: &[i64], owned: bool, fallible: bool) -> Vec<i64> {
        self.members
            .iter()
            .enumerate()
            .map(|(k, m)| match m.mi {
                MI::Plain | MI::Rename | MI::AsType | MI::AsTypeRename => tv[m.slot.unwrap()],
                MI::ExprTilde | MI::RenameExpr | MI::AtPair => tv[m.slot.unwrap()] + m.marker,
                MI::FalliblePair => tv[m.slot.unwrap()] + if fallible { m.marker2 } else { m.marker },
                MI::Ghost => m.marker,
                MI::GhostNoDefault => Self::SBASE + k as i64,
                MI::GhostOwned => if owned { m.marker } else { tv[m.slot.unwrap()] },
                MI::GhostRef => if !owned { m.marker } else { tv[m.slot.unwrap()] },
            })
            .collect()
    }
    /// M_sem: expected counterpart leaves after Into (existing = None) or IntoExisting (existing = pre-values)
    pub fn expect_into(&self, sv: &[i64], owned: bool, existing: bool) -> Vec<i64> {
        self.expect_into_f(sv, owned, existing, false)
    }
    pub fn expect_into_f(&self, sv: &[i64], owned: bool, existing: bool, fallible: bool) -> Vec<i64> {
        self.slots
            .iter()
            .enumerate()
            .map(|(j, s)| match s.src {
                SlotSrc::Member(k) => {
                    let m = &self.members[k];
                    match m.mi {
                        MI::Plain | MI::Rename | MI::AsType | MI::AsTypeRename => sv[k],
                        MI::ExprTilde | MI::RenameExpr | MI::AtPair => sv[k] + m.marker,
                        MI::FalliblePair => sv[k] + if fallible { m.marker2 } else { m.marker },
                        MI::GhostOwned => if owned { m.marker2 } else { sv[k] },
                        MI::GhostRef => if !owned { m.marker2 } else { sv[k] },
                        MI::Ghost | MI::GhostNoDefault => unreachable!(),
                    }
                }
                SlotSrc::Ghosts(mk) => mk,
                SlotSrc::Extra => if existing { Self::PRE + j as i64 } else { Self::TBASE + j as i64 },
            })
            .collect()
    }

    /// non-trivial = at least one member or slot behaves differently from "copy the same-named field"
    pub fn nontrivial(&self) -> bool {
        self.members.iter().any(|m| m.mi != MI::Plain) || self.slots.iter().any(|s| !matches!(s.src, SlotSrc::Member(_))) || self.form != CpForm::Same
    }

    /// source of one self-contained test module for engine B
    pub fn render_module(&self, id: &str) -> String {
        let mut o = String::new();
        let bare = self.form == CpForm::BareTuple;
        let _ = writeln!(o, "// case {}\n#![allow(unused, non_camel_case_types, clippy::all)]\nuse crate::common::*;\nuse o2o::traits::*;", id);
        o.push_str(&self.cp_def("T"));
        if !bare {
            o.push_str(&self.cp_def("Tf"));
        }
        let nslots = self.slots.len();
        let n = self.members.len();
        // update bases
        if self.update {
            let tb: Vec<i64> = (0..nslots).map(|j| Self::TBASE + j as i64).collect();
            let sb: Vec<i64> = (0..n).map(|k| Self::SBASE + k as i64).collect();
            let _ = writeln!(o, "fn tbase() -> T {{ {} }}", self.cp_literal("T", &tb));
            let _ = writeln!(o, "fn tfbase() -> Tf {{ {} }}", self.cp_literal("Tf", &tb));
            let _ = writeln!(o, "fn sbase() -> S {{ {} }}", self.s_literal("S", &sb));
        }
        let derives = "#[derive(Clone, Debug, PartialEq, Default, o2o::o2o)]";
        if bare {
            // From<X> and TryFrom<X> for one type overlap: two deriving structs with identical members
            let _ = writeln!(o, "{}\n{}", derives, self.item("S", Flavour::Infallible).render());
            let mut sf = self.item("S", Flavour::Fallible);
            sf.name = "Sf".into();
            let _ = writeln!(o, "{}\n{}", derives, sf.render());
        } else {
            let _ = writeln!(o, "{}\n{}", derives, self.item("S", Flavour::Both).render());
        }
        let _ = writeln!(o, "pub fn run(r: &mut Rec) {{");
        for assign in 0..2 {
            let tv: Vec<i64> = (0..nslots).map(|j| self.tval(j, assign)).collect();
            let sv: Vec<i64> = (0..n).map(|k| self.sval(k, assign)).collect();
            let pre: Vec<i64> = (0..nslots).map(|j| Self::PRE + j as i64).collect();
            for fallible in [false, true] {
                let (tn, sn) = if bare { ("T", if fallible { "Sf" } else { "S" }) } else { (if fallible { "Tf" } else { "T" }, "S") };
                let tty = if bare { self.cp_type(false) } else { tn.to_string() };
                let tlit = self.cp_literal(tn, &tv);
                let slit = self.s_literal(sn, &sv);
                let prelit = self.cp_literal(tn, &pre);
                let a = assign;
                let f = if fallible { "try_" } else { "" };
                let wrap = |e: String| if fallible { format!("Ok::<_, Er>({})", e) } else { e };
                // From owned / ref
                let ef_o = self.s_literal(sn, &self.expect_from_f(&tv, true, fallible));
                let ef_r = self.s_literal(sn, &self.expect_from_f(&tv, false, fallible));
                if fallible {
                    let _ = writeln!(o, "  {{ let t: {tty} = {tlit}; r.eq(\"{f}from_owned/{a}\", &<{sn} as TryFrom<{tty}>>::try_from(t), &{}); }}", wrap(ef_o));
                    let _ = writeln!(o, "  {{ let t: {tty} = {tlit}; r.eq(\"{f}from_ref/{a}\", &<{sn} as TryFrom<&{tty}>>::try_from(&t), &{}); }}", wrap(ef_r));
                } else {
                    let _ = writeln!(o, "  {{ let t: {tty} = {tlit}; r.eq(\"from_owned/{a}\", &<{sn} as From<{tty}>>::from(t), &{}); }}", ef_o);
                    let _ = writeln!(o, "  {{ let t: {tty} = {tlit}; r.eq(\"from_ref/{a}\", &<{sn} as From<&{tty}>>::from(&t), &{}); }}", ef_r);
                }
                // Into owned / ref
                let ei_o = self.cp_literal(tn, &self.expect_into_f(&sv, true, false, fallible));
                let ei_r = self.cp_literal(tn, &self.expect_into_f(&sv, false, false, fallible));
                if fallible {
                    let _ = writeln!(o, "  {{ let s = {slit}; r.eq(\"{f}owned_into/{a}\", &<{sn} as TryInto<{tty}>>::try_into(s), &{}); }}", wrap(ei_o));
                    let _ = writeln!(o, "  {{ let s = {slit}; r.eq(\"{f}ref_into/{a}\", &<&{sn} as TryInto<{tty}>>::try_into(&s), &{}); }}", wrap(ei_r));
                } else {
                    let _ = writeln!(o, "  {{ let s = {slit}; r.eq(\"owned_into/{a}\", &<{sn} as Into<{tty}>>::into(s), &{}); }}", ei_o);
                    let _ = writeln!(o, "  {{ let s = {slit}; r.eq(\"ref_into/{a}\", &<&{sn} as Into<{tty}>>::into(&s), &{}); }}", ei_r);
                }
                // IntoExisting owned / ref
                let ee_o = self.cp_literal(tn, &self.expect_into_f(&sv, true, true, fallible));
                let ee_r = self.cp_literal(tn, &self.expect_into_f(&sv, false, true, fallible));
                if fallible {
                    let _ = writeln!(o, "  {{ let s = {slit}; let mut o: {tty} = {prelit}; let res = <{sn} as TryIntoExisting<{tty}>>::try_into_existing(s, &mut o); r.eq(\"{f}owned_into_existing/{a}\", &res.map(|_| o), &{}); }}", wrap(ee_o));
                    let _ = writeln!(o, "  {{ let s = {slit}; let mut o: {tty} = {prelit}; let res = <&{sn} as TryIntoExisting<{tty}>>::try_into_existing(&s, &mut o); r.eq(\"{f}ref_into_existing/{a}\", &res.map(|_| o), &{}); }}", wrap(ee_r));
                } else {
                    let _ = writeln!(o, "  {{ let s = {slit}; let mut o: {tty} = {prelit}; <{sn} as IntoExisting<{tty}>>::into_existing(s, &mut o); r.eq(\"owned_into_existing/{a}\", &o, &{}); }}", ee_o);
                    let _ = writeln!(o, "  {{ let s = {slit}; let mut o: {tty} = {prelit}; <&{sn} as IntoExisting<{tty}>>::into_existing(&s, &mut o); r.eq(\"ref_into_existing/{a}\", &o, &{}); }}", ee_r);
                }
            }
        }
        o.push_str("}\n");
        o
    }
}
