//! Engine A: in-process call of the real `o2o_impl::expand::derive` under `catch_unwind`.

use proc_macro2::{Delimiter, TokenStream, TokenTree};
use std::cell::RefCell;
use std::panic::{catch_unwind, AssertUnwindSafe};
use std::sync::Once;

#[cfg(feature = "b1")]
use syn1 as synx;
#[cfg(all(feature = "b2", not(feature = "b1")))]
use syn2 as synx;

#[derive(Debug, Clone, PartialEq, Eq, Hash)]
pub enum Xp {
    /// generated impls (token stream rendered to a canonical string)
    Ok(String),
    /// diagnostics, in emission order
    Err(Vec<String>),
    /// unwinding out of `derive`
    Panic { msg: String, loc: String },
    /// the input is not a syntactically valid derive input (not the subject's business)
    NotAnItem(String),
}

impl Xp {
    pub fn verdict(&self) -> &'static str {
        match self {
            Xp::Ok(_) => "ok",
            Xp::Err(_) => "err",
            Xp::Panic { .. } => "panic",
            Xp::NotAnItem(_) => "not-an-item",
        }
    }
    pub fn is_ok(&self) -> bool {
        matches!(self, Xp::Ok(_))
    }
    pub fn short(&self) -> String {
        match self {
            Xp::Ok(s) => format!("Ok({})", trunc(s, 300)),
            Xp::Err(v) => format!("Err({:?})", v),
            Xp::Panic { msg, loc } => format!("Panic({} @ {})", msg, loc),
            Xp::NotAnItem(e) => format!("NotAnItem({})", e),
        }
    }
}

pub fn trunc(s: &str, n: usize) -> String {
    if s.len() <= n {
        s.to_string()
    } else {
        let mut k = n;
        while !s.is_char_boundary(k) {
            k -= 1;
        }
        format!("{}…", &s[..k])
    }
}

thread_local! {
    static LAST_PANIC: RefCell<Option<(String, String)>> = RefCell::new(None);
    static QUIET: RefCell<bool> = RefCell::new(false);
}

static HOOK: Once = Once::new();

pub fn install_hook() {
    HOOK.call_once(|| {
        let prev = std::panic::take_hook();
        std::panic::set_hook(Box::new(move |info| {
            let quiet = QUIET.with(|q| *q.borrow());
            if quiet {
                let msg = if let Some(s) = info.payload().downcast_ref::<&str>() {
                    s.to_string()
                } else if let Some(s) = info.payload().downcast_ref::<String>() {
                    s.clone()
                } else {
                    "<non-string panic>".to_string()
                };
                let loc = info.location().map(|l| format!("{}:{}", short_file(l.file()), l.line())).unwrap_or_default();
                LAST_PANIC.with(|p| *p.borrow_mut() = Some((msg, loc)));
            } else {
                prev(info);
            }
        }));
    });
}

fn short_file(f: &str) -> String {
    // "/repo/o2o-impl/src/expand.rs" -> "expand.rs"; registry paths -> "crate/file.rs"
    if let Some(i) = f.rfind("o2o-impl/src/") {
        return f[i + "o2o-impl/src/".len()..].to_string();
    }
    let parts: Vec<&str> = f.rsplit('/').take(3).collect();
    parts.into_iter().rev().collect::<Vec<_>>().join("/")
}

/// Run `f` with panics captured silently.
pub fn quiet_catch<R>(f: impl FnOnce() -> R) -> Result<R, (String, String)> {
    install_hook();
    QUIET.with(|q| *q.borrow_mut() = true);
    LAST_PANIC.with(|p| *p.borrow_mut() = None);
    let r = catch_unwind(AssertUnwindSafe(f));
    QUIET.with(|q| *q.borrow_mut() = false);
    match r {
        Ok(v) => Ok(v),
        Err(_) => Err(LAST_PANIC.with(|p| p.borrow_mut().take()).unwrap_or(("<unknown>".into(), "".into()))),
    }
}

pub fn parse_input(src: &str) -> Result<synx::DeriveInput, String> {
    synx::parse_str::<synx::DeriveInput>(src).map_err(|e| e.to_string())
}

/// The production path minus rustc's lexer: text -> tokens -> DeriveInput -> derive.
pub fn expand_ts(src: &str) -> Result<Result<TokenStream, Vec<String>>, Xp> {
    let di = match quiet_catch(|| parse_input(src)) {
        Ok(Ok(di)) => di,
        Ok(Err(e)) => return Err(Xp::NotAnItem(e)),
        Err((msg, loc)) => return Err(Xp::NotAnItem(format!("parser panicked: {} @ {}", msg, loc))),
    };
    match quiet_catch(|| o2o_impl::expand::derive(&di)) {
        Ok(Ok(ts)) => Ok(Ok(ts)),
        Ok(Err(e)) => Ok(Err(e.into_iter().map(|x| x.to_string()).collect())),
        Err((msg, loc)) => Err(Xp::Panic { msg, loc }),
    }
}

/// same as `expand_ts` but from an already built token stream (lets the harness inject None-delimited groups)
pub fn expand_tokens(ts: TokenStream) -> Result<Result<TokenStream, Vec<String>>, Xp> {
    let di = match quiet_catch(|| synx::parse2::<synx::DeriveInput>(ts)) {
        Ok(Ok(di)) => di,
        Ok(Err(e)) => return Err(Xp::NotAnItem(e.to_string())),
        Err((msg, loc)) => return Err(Xp::NotAnItem(format!("parser panicked: {} @ {}", msg, loc))),
    };
    match quiet_catch(|| o2o_impl::expand::derive(&di)) {
        Ok(Ok(ts)) => Ok(Ok(ts)),
        Ok(Err(e)) => Ok(Err(e.into_iter().map(|x| x.to_string()).collect())),
        Err((msg, loc)) => Err(Xp::Panic { msg, loc }),
    }
}

pub fn expand(src: &str) -> Xp {
    match expand_ts(src) {
        Ok(Ok(ts)) => Xp::Ok(canon(&ts)),
        Ok(Err(v)) => Xp::Err(v),
        Err(x) => x,
    }
}

/// verdict only, no rendering of the output (fast path for C16)
pub fn expand_verdict(src: &str) -> Xp {
    match expand_ts(src) {
        Ok(Ok(_)) => Xp::Ok(String::new()),
        Ok(Err(v)) => Xp::Err(v),
        Err(x) => x,
    }
}

/// Flattened atom list: every leaf token's text, groups contribute their delimiters; None-delimited groups are
/// transparent; `Spacing` is ignored.
pub fn atoms(ts: &TokenStream) -> Vec<String> {
    let mut out = Vec::new();
    fn walk(ts: TokenStream, out: &mut Vec<String>) {
        for t in ts {
            match t {
                TokenTree::Group(g) => {
                    let (o, c) = match g.delimiter() {
                        Delimiter::Parenthesis => ("(", ")"),
                        Delimiter::Brace => ("{", "}"),
                        Delimiter::Bracket => ("[", "]"),
                        Delimiter::None => ("", ""),
                    };
                    if !o.is_empty() {
                        out.push(o.to_string());
                    }
                    walk(g.stream(), out);
                    if !c.is_empty() {
                        out.push(c.to_string());
                    }
                }
                TokenTree::Ident(i) => out.push(i.to_string()),
                TokenTree::Punct(p) => out.push(p.as_char().to_string()),
                TokenTree::Literal(l) => out.push(l.to_string()),
            }
        }
    }
    walk(ts.clone(), &mut out);
    out
}

pub fn canon(ts: &TokenStream) -> String {
    atoms(ts).join(" ")
}

pub fn atoms_of_str(s: &str) -> Result<Vec<String>, String> {
    let ts: TokenStream = s.parse().map_err(|e: proc_macro2::LexError| e.to_string())?;
    Ok(atoms(&ts))
}

/// Split the output of `derive` into top-level items' canonical strings (each `impl ... { ... }` with its leading
/// attributes). Returns None when the stream does not have the shape `(#[..])* impl ... {..}` repeated.
pub fn split_impls(ts: &TokenStream) -> Option<Vec<TokenStream>> {
    let mut items: Vec<TokenStream> = Vec::new();
    let mut cur: Vec<TokenTree> = Vec::new();
    let mut seen_impl = false;
    for t in ts.clone() {
        let is_brace = matches!(&t, TokenTree::Group(g) if g.delimiter() == Delimiter::Brace);
        if let TokenTree::Ident(i) = &t {
            if i == "impl" && !seen_impl {
                seen_impl = true;
            }
        }
        cur.push(t);
        if is_brace && seen_impl {
            items.push(cur.drain(..).collect());
            seen_impl = false;
        }
    }
    if !cur.is_empty() {
        return None;
    }
    Some(items)
}

pub fn contains_subseq(hay: &[String], needle: &[String]) -> bool {
    if needle.is_empty() {
        return true;
    }
    if needle.len() > hay.len() {
        return false;
    }
    hay.windows(needle.len()).any(|w| w == needle)
}
