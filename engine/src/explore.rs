//! Engine X: stateless, deviation-bounded, exhaustive choice-tree explorer.
//!
//! A generator is a closure `Fn(&mut Ctx) -> Option<T>`; every decision is a `ctx.choose(n)` call. Choice 0 is the
//! default (simplest) answer. `explore` visits every complete choice vector whose number of non-default choices is
//! `<= bound` exactly once (bound = None: the full product). Work items (prefixes) are independent and are processed
//! by a pool of threads; visitors must therefore be `Sync` and aggregate order-independently.

use std::collections::VecDeque;
use std::sync::atomic::{AtomicBool, AtomicU64, AtomicUsize, Ordering};
use std::sync::{Condvar, Mutex};
use std::time::Instant;

pub struct Ctx {
    prefix: Vec<u32>,
    pub choices: Vec<u32>,
    pub arities: Vec<u32>,
    /// deviation class of every choice point: 0 = primary (bounded by `bound`), 1 = secondary (bounded by `bound2`)
    pub classes: Vec<u8>,
    cur_class: u8,
    pub rejected: bool,
}

impl Ctx {
    pub fn replay(prefix: &[u32]) -> Ctx {
        Ctx { prefix: prefix.to_vec(), choices: Vec::new(), arities: Vec::new(), classes: Vec::new(), cur_class: 0, rejected: false }
    }
    /// One decision point with `n` answers (n >= 1). Replays the prefix, then answers 0.
    pub fn choose(&mut self, n: usize) -> usize {
        assert!(n >= 1, "choose(0)");
        let i = self.choices.len();
        let c = if i < self.prefix.len() {
            let c = self.prefix[i];
            if c as usize >= n {
                // replay divergence: a hard machinery error, never a verdict
                eprintln!("MACHINERY-ERROR: replay divergence at choice {} (value {} arity {})", i, c, n);
                std::process::exit(2);
            }
            c
        } else {
            0
        };
        self.choices.push(c);
        self.arities.push(n as u32);
        self.classes.push(self.cur_class);
        c as usize
    }
    /// choice points made from now on belong to deviation class `c` (0 primary, 1 secondary)
    pub fn set_class(&mut self, c: u8) {
        self.cur_class = c;
    }
    pub fn flag(&mut self) -> bool {
        self.choose(2) == 1
    }
    pub fn pick<'a, T: ?Sized>(&mut self, xs: &[&'a T]) -> &'a T {
        xs[self.choose(xs.len())]
    }
    pub fn pick_cloned<T: Clone>(&mut self, xs: &[T]) -> T {
        xs[self.choose(xs.len())].clone()
    }
    /// every subset of 0..n (as bitmask), simplest (empty) first
    pub fn subset(&mut self, n: usize) -> Vec<bool> {
        (0..n).map(|_| self.flag()).collect()
    }
    /// every permutation of 0..n, identity first (Lehmer code)
    pub fn permutation(&mut self, n: usize) -> Vec<usize> {
        let mut pool: Vec<usize> = (0..n).collect();
        let mut out = Vec::with_capacity(n);
        while !pool.is_empty() {
            let k = if pool.len() > 1 { self.choose(pool.len()) } else { 0 };
            out.push(pool.remove(k));
        }
        out
    }
    /// prune: the combination is not part of the space (e.g. the documentation forbids it)
    pub fn reject<T>(&mut self) -> Option<T> {
        self.rejected = true;
        None
    }
    pub fn deviations(&self) -> usize {
        self.choices.iter().filter(|c| **c != 0).count()
    }
}

#[derive(Default, Debug, Clone)]
pub struct ExploreStats {
    pub leaves: u64,      // complete choice vectors visited (incl. pruned)
    pub pruned: u64,      // rejected by the generator
    pub transitions: u64, // choice edges expanded (sum of arities along visited leaves' new suffixes)
    pub max_depth: usize,
    pub capped: bool,
    pub cap_reason: Option<String>,
}

pub struct Caps {
    pub wall_s: f64,
    pub start: Instant,
}

impl Caps {
    pub fn from_env(default_wall_s: f64) -> Caps {
        let wall_s = std::env::var("VERIF_WALL_CAP_S").ok().and_then(|s| s.parse().ok()).unwrap_or(default_wall_s);
        Caps { wall_s, start: Instant::now() }
    }
    pub fn exceeded(&self) -> bool {
        self.start.elapsed().as_secs_f64() > self.wall_s
    }
}

pub fn jobs() -> usize {
    std::env::var("VERIF_JOBS").ok().and_then(|s| s.parse().ok()).unwrap_or(16).max(1)
}

/// Visit every leaf of the choice tree with at most `bound` non-default choices.
/// `visit(choices, case)` is called once per non-pruned leaf, from worker threads.
pub fn explore<T, G, V>(gen: G, bound: Option<usize>, caps: &Caps, visit: V) -> ExploreStats
where
    G: Fn(&mut Ctx) -> Option<T> + Sync,
    V: Fn(&[u32], T) + Sync,
{
    explore2(gen, bound, None, caps, visit)
}

/// Two deviation classes: at most `bound` non-default primary choices and at most `bound2` non-default secondary ones.
pub fn explore2<T, G, V>(gen: G, bound: Option<usize>, bound2: Option<usize>, caps: &Caps, visit: V) -> ExploreStats
where
    G: Fn(&mut Ctx) -> Option<T> + Sync,
    V: Fn(&[u32], T) + Sync,
{
    let queue: Mutex<VecDeque<Vec<u32>>> = Mutex::new(VecDeque::from(vec![vec![]]));
    let cv = Condvar::new();
    let active = AtomicUsize::new(0);
    let leaves = AtomicU64::new(0);
    let pruned = AtomicU64::new(0);
    let transitions = AtomicU64::new(0);
    let max_depth = AtomicUsize::new(0);
    let capped = AtomicBool::new(false);
    let n = jobs();

    // process one prefix: run, visit, then either push children to the shared queue or recurse locally
    fn run_item<T, G, V>(
        prefix: Vec<u32>, gen: &G, bound: Option<usize>, bound2: Option<usize>, visit: &V, caps: &Caps, capped: &AtomicBool,
        leaves: &AtomicU64, pruned: &AtomicU64, transitions: &AtomicU64, max_depth: &AtomicUsize,
        queue: &Mutex<VecDeque<Vec<u32>>>, cv: &Condvar, local_depth: usize,
    ) where
        G: Fn(&mut Ctx) -> Option<T> + Sync,
        V: Fn(&[u32], T) + Sync,
    {
        if capped.load(Ordering::Relaxed) {
            return;
        }
        if caps.exceeded() {
            capped.store(true, Ordering::Relaxed);
            return;
        }
        let mut ctx = Ctx::replay(&prefix);
        let case = gen(&mut ctx);
        if ctx.choices.len() < prefix.len() {
            eprintln!("MACHINERY-ERROR: replay divergence: prefix longer than execution");
            std::process::exit(2);
        }
        leaves.fetch_add(1, Ordering::Relaxed);
        max_depth.fetch_max(ctx.choices.len(), Ordering::Relaxed);
        match case {
            Some(c) if !ctx.rejected => visit(&ctx.choices, c),
            _ => {
                pruned.fetch_add(1, Ordering::Relaxed);
            }
        }
        let devs_prefix = [
            (0..prefix.len()).filter(|i| ctx.choices[*i] != 0 && ctx.classes[*i] == 0).count(),
            (0..prefix.len()).filter(|i| ctx.choices[*i] != 0 && ctx.classes[*i] != 0).count(),
        ];
        // zeros between prefix end and i do not add deviations
        let mut children: Vec<Vec<u32>> = Vec::new();
        for i in prefix.len()..ctx.choices.len() {
            let ar = ctx.arities[i];
            transitions.fetch_add(ar as u64, Ordering::Relaxed);
            let cl = if ctx.classes[i] == 0 { 0 } else { 1 };
            if let Some(b) = if cl == 0 { bound } else { bound2 } {
                if devs_prefix[cl] + 1 > b {
                    continue;
                }
            }
            for alt in 1..ar {
                let mut p = ctx.choices[..i].to_vec();
                p.push(alt);
                children.push(p);
            }
        }
        drop(ctx);
        let share = {
            let q = queue.lock().unwrap();
            q.len() < 4096
        };
        if share || local_depth > 200 {
            let mut q = queue.lock().unwrap();
            for c in children {
                q.push_back(c);
            }
            cv.notify_all();
        } else {
            for c in children {
                run_item(c, gen, bound, bound2, visit, caps, capped, leaves, pruned, transitions, max_depth, queue, cv, local_depth + 1);
            }
        }
    }

    std::thread::scope(|s| {
        for _ in 0..n {
            s.spawn(|| loop {
                let item = {
                    let mut q = queue.lock().unwrap();
                    loop {
                        if let Some(it) = q.pop_back() {
                            active.fetch_add(1, Ordering::SeqCst);
                            break Some(it);
                        }
                        if active.load(Ordering::SeqCst) == 0 {
                            break None;
                        }
                        let (g, _) = cv.wait_timeout(q, std::time::Duration::from_millis(20)).unwrap();
                        q = g;
                    }
                };
                match item {
                    None => {
                        cv.notify_all();
                        return;
                    }
                    Some(prefix) => {
                        run_item(prefix, &gen, bound, bound2, &visit, caps, &capped, &leaves, &pruned, &transitions, &max_depth, &queue, &cv, 0);
                        active.fetch_sub(1, Ordering::SeqCst);
                        cv.notify_all();
                    }
                }
            });
        }
    });

    let capped = capped.load(Ordering::Relaxed);
    ExploreStats {
        leaves: leaves.load(Ordering::Relaxed),
        pruned: pruned.load(Ordering::Relaxed),
        transitions: transitions.load(Ordering::Relaxed),
        max_depth: max_depth.load(Ordering::Relaxed),
        capped,
        cap_reason: if capped { Some(format!("wall cap {}s", caps.wall_s)) } else { None },
    }
}

/// Re-run a generator on one complete choice vector (replay without the explorer).
pub fn replay_one<T, G: Fn(&mut Ctx) -> Option<T>>(gen: G, choices: &[u32]) -> (Option<T>, Vec<u32>) {
    let mut ctx = Ctx::replay(choices);
    let c = gen(&mut ctx);
    (c, ctx.choices)
}

#[cfg(test)]
mod tests {
    use super::*;
    use std::collections::BTreeSet;
    #[test]
    fn full_product_visits_each_leaf_once() {
        let seen = Mutex::new(BTreeSet::new());
        let caps = Caps { wall_s: 100.0, start: Instant::now() };
        let st = explore(
            |c| {
                let a = c.choose(3);
                let b = if a == 1 { c.choose(4) } else { 0 };
                let p = c.permutation(3);
                Some((a, b, p))
            },
            None,
            &caps,
            |ch, case| {
                assert!(seen.lock().unwrap().insert((ch.to_vec(), format!("{:?}", case))));
            },
        );
        assert_eq!(seen.lock().unwrap().len(), (2 + 4) * 6);
        assert_eq!(st.leaves, 36);
    }
    #[test]
    fn deviation_bound() {
        let cnt = AtomicU64::new(0);
        let caps = Caps { wall_s: 100.0, start: Instant::now() };
        explore(|c| Some((0..5).map(|_| c.choose(3)).collect::<Vec<_>>()), Some(2), &caps, |_, v| {
            assert!(v.iter().filter(|x| **x != 0).count() <= 2);
            cnt.fetch_add(1, Ordering::Relaxed);
        });
        // 1 + 5*2 + C(5,2)*4 = 51
        assert_eq!(cnt.load(Ordering::Relaxed), 51);
    }
}
