//! Feature-interaction generators: well-formed derive inputs (structs and enums) built from a menu of documented
//! instruction forms. No semantics attached - they are the host corpus of the structural and metamorphic checks
//! (C04-C06, C08, C12-C14, C16-C20). Embedded expressions, types and patterns are well-formed by construction.

use crate::explore::Ctx;
use crate::item::{Field, Instr, Item, Shape, Variant};

pub struct FOpts {
    pub max_members: usize,
    pub two_counterparts: bool,
    /// always two counterparts (no choice point)
    pub force_two: bool,
    /// member menu size class: 0 = core (6 entries), 1 = full
    pub full_menu: bool,
    pub params: bool,
}

/// (name, instruction list, needs fallible error type)
const KIND_PRESETS: &[(&str, &[&str])] = &[
    ("all-infallible", &["map", "into_existing"]),
    ("all-fallible", &["try_map", "try_into_existing"]),
    ("from-only", &["from"]),
    ("into-only", &["into"]),
    ("mixed", &["from_owned", "ref_try_into", "owned_into_existing"]),
    ("existing-only", &["into_existing"]),
    ("owned", &["map_owned", "owned_try_into_existing"]),
    ("ref", &["try_map_ref", "ref_into_existing"]),
];

fn is_fallible(name: &str) -> bool {
    crate::model::appl(name).map_or(false, |x| x.1)
}

#[derive(Clone, Debug)]
pub struct FCase {
    pub item: Item,
    pub tags: Vec<String>,
}

const PARAM_MENU: &[(&str, &str)] = &[
    ("vars", "vars(v1: {1}, v2: {v1 + 1})"),
    ("attribute", "attribute(inline)"),
    ("impl_attribute", "impl_attribute(cfg(all()))"),
    ("inner_attribute", "inner_attribute(allow(unused))"),
];

pub fn gen_struct(ctx: &mut Ctx, o: &FOpts) -> Option<FCase> {
    let named = !ctx.flag();
    let shape = if named { Shape::Named } else { Shape::Tuple };
    // hint: 0 none, 1 the "other" kind (named -> as (), tuple -> as {}), 2 explicit same kind
    let hint_k = ctx.choose(3);
    let hint = match (named, hint_k) {
        (_, 0) => "",
        (true, 1) => " as ()",
        (false, 1) => " as {}",
        (true, _) => " as {}",
        (false, _) => " as ()",
    };
    let cp_named = match (named, hint_k) {
        (true, 1) => false,
        (false, 1) => true,
        (n, _) => n,
    };
    let preset = ctx.choose(KIND_PRESETS.len());
    let two = o.force_two || (o.two_counterparts && ctx.flag());
    let n = 1 + ctx.choose(o.max_members);
    let mut tags = vec![format!("host=struct"), format!("shape={}", if named { "named" } else { "tuple" }), format!("hint={}", hint.trim()), format!("preset={}", KIND_PRESETS[preset].0)];
    if two {
        tags.push("two-counterparts".into());
    }
    let has_from = KIND_PRESETS[preset].1.iter().any(|n| crate::model::appl(n).unwrap().0.iter().any(|d| d.is_from()));
    let has_into = KIND_PRESETS[preset].1.iter().any(|n| crate::model::appl(n).unwrap().0.iter().any(|d| !d.is_from()));
    let mut fields: Vec<Field> = vec![];
    let mut need_child_parents: Vec<&str> = vec![];
    let mut uses_parent_bare = false;
    let menu_n = if o.full_menu { 13 } else { 6 };
    let mut repeat_open = false;
    for k in 0..n {
        let mname = ["a", "b", "c", "d"][k];
        let tgt = if cp_named { ["x", "y", "z", "w"][k].to_string() } else { k.to_string() };
        let me = if named { mname.to_string() } else { k.to_string() };
        let mut f = if named { Field::named(mname, "i32") } else { Field::pos("i32") };
        let need_rename = named != cp_named;
        let ded = if two { [None, Some("T"), Some("U")][ctx.choose(3)] } else { None };
        let choice = ctx.choose(menu_n);
        tags.push(format!("m{}={}", k, choice));
        match choice {
            0 => {
                if need_rename {
                    f.attrs.push(Instr::new("map", ded, &tgt));
                }
                // plain members of common library types: nothing in the generated code may depend on what the type is
                // (seed C20-06 special-cased PhantomData members)
                f.ty = ["i32", "PhantomData<u8>", "core::marker::PhantomData<u8>", "Option<i32>", "String", "Vec<u8>", "Box<i32>", "&'static str", "[u8; 2]", "(i32, i32)", "char", "bool", "f64", "()"][ctx.choose(14)].to_string();
            }
            1 => f.attrs.push(Instr::new("map", ded, &tgt)),
            2 => {
                if need_rename {
                    f.attrs.push(Instr::new("map", ded, &format!("{}, ~ + {}", tgt, k + 1)));
                } else {
                    f.attrs.push(Instr::new("map", ded, &format!("~ + {}", k + 1)));
                }
            }
            3 => {
                f.attrs.push(Instr::new("ghost", ded, &format!("{{{}}}", 70 + k)));
            }
            4 => {
                f.attrs.push(Instr::new("from", ded, &format!("@.{} + {}", tgt, k + 1)));
                f.attrs.push(Instr::new("into", ded, &format!("{}, @.{} + {}", tgt, me, k + 1)));
            }
            5 => {
                let body = if need_rename { format!("{}, i64", tgt) } else { "i64".to_string() };
                f.attrs.push(Instr::new("as_type", ded, &body));
                // the cast generated for the From side is chosen from the member's own type (seed C20-05: a char member)
                f.ty = ["i32", "char", "f32", "u8", "bool"][ctx.choose(5)].to_string();
            }
            6 => {
                if !cp_named && named {
                    return ctx.reject();
                }
                f.attrs.push(Instr::new("child", ded, "p"));
                if need_rename {
                    f.attrs.push(Instr::new("map", ded, &tgt));
                }
                need_child_parents.push("p");
            }
            7 => {
                if !cp_named && named {
                    return ctx.reject();
                }
                f.attrs.push(Instr::new("child", ded, "p.q"));
                if need_rename {
                    f.attrs.push(Instr::new("map", ded, &tgt));
                }
                need_child_parents.push("p.q");
            }
            8 => {
                f.ty = "P".into();
                let mut i = Instr::word("parent");
                if let Some(d) = ded {
                    i = Instr::new("parent", Some(d), "");
                }
                f.attrs.push(i);
                uses_parent_bare = true;
            }
            9 => {
                f.ty = "P".into();
                let body = if cp_named { format!("pa{k}, [map(pz{k}, ~ + 1)] pb{k}") } else { format!("[map(pz{k})] 0, [from(@.pw{k})] [into(pw{k}, ~ + 2)] 1") };
                if !cp_named {
                    return ctx.reject(); // positional parents need names on the counterpart side: keep the documented named form only
                }
                f.attrs.push(Instr::new("parent", ded, &body));
            }
            10 => {
                // fallible member instruction + infallible fallback
                f.attrs.push(Instr::new("try_from", ded, &format!("{}~.try_into()?", if need_rename { format!("{}, ", tgt) } else { String::new() })));
                if need_rename {
                    f.attrs.push(Instr::new("into", ded, &tgt));
                }
            }
            11 => {
                // member-level repeat block start
                if repeat_open {
                    f.attrs.push(Instr::word("stop_repeat"));
                }
                f.attrs.push(Instr::new("repeat", None, ""));
                f.attrs.push(Instr::new("map", ded, &format!("~ + {}", 40 + k)));
                repeat_open = true;
                if need_rename {
                    return ctx.reject();
                }
            }
            _ => {
                if !repeat_open {
                    return ctx.reject();
                }
                f.attrs.push(Instr::word(if ctx.flag() { "skip_repeat" } else { "stop_repeat" }));
                if need_rename {
                    return ctx.reject();
                }
            }
        }
        fields.push(f);
    }
    let mut item = Item::new_struct("S", shape, fields);
    // trait instructions
    let mut params_used = vec![];
    for (ci, cp) in (if two { vec!["T", "U"] } else { vec!["T"] }).into_iter().enumerate() {
        for (ii, name) in KIND_PRESETS[preset].1.iter().enumerate() {
            let mut body = format!("{}{}{}", cp, hint, if is_fallible(name) { ", Er" } else { "" });
            if o.params && ci == 0 && ii == 0 {
                let mut ps: Vec<String> = vec![];
                for (pn, ptxt) in PARAM_MENU {
                    if ctx.flag() {
                        ps.push(ptxt.to_string());
                        params_used.push(*pn);
                    }
                }
                // terminal parameter: none | ..update | return
                let dirs = crate::model::appl(name).unwrap().0;
                let term = ctx.choose(3);
                match term {
                    1 => {
                        if !cp_named || !named || dirs.iter().any(|d| d.is_existing()) {
                            return ctx.reject();
                        }
                        // update expression must fit both directions when the instruction covers both: use Default
                        ps.push("..Default::default()".into());
                        params_used.push("update");
                    }
                    2 => {
                        if dirs.iter().any(|d| d.is_from()) && dirs.iter().any(|d| !d.is_from()) {
                            return ctx.reject(); // a quick return has one type: only for one-direction instructions
                        }
                        ps.push("return Default::default()".into());
                        params_used.push("return");
                    }
                    _ => {}
                }
                if !ps.is_empty() {
                    body = format!("{}| {}", body, ps.join(", "));
                }
            }
            item.attrs.push(Instr::new(name, None, &body));
        }
    }
    for p in &params_used {
        tags.push(format!("param={}", p));
    }
    // struct-level ghosts (counterpart-only fields) - only meaningful when an Into kind is requested
    let g = ctx.choose(3);
    if g > 0 {
        if !has_into {
            return ctx.reject();
        }
        let ded = if two && g == 2 { Some("T") } else { None };
        if g == 2 && !two {
            return ctx.reject();
        }
        let nm = if cp_named { "gg".to_string() } else { n.to_string() };
        item.attrs.push(Instr::new("ghosts", ded, &format!("{}: {{{}}}", nm, 90)));
        tags.push("ghosts".into());
    }
    if !need_child_parents.is_empty() {
        let mut cps = vec!["p: P".to_string()];
        if need_child_parents.contains(&"p.q") {
            cps.push("p.q: Q".into());
        }
        item.attrs.push(Instr::new("child_parents", None, &cps.join(", ")));
        tags.push("child".into());
    }
    if uses_parent_bare {
        tags.push("parent-bare".into());
    }
    if ctx.flag() {
        item.attrs.push(Instr::new("where_clause", None, "P: Clone"));
        tags.push("where".into());
        // the deriving type's own where clause, written without / with a trailing comma (seed C17-02)
        match ctx.choose(3) {
            1 => { item.where_clause = "where i32: Copy".into(); tags.push("own-where".into()); }
            2 => { item.where_clause = "where i32: Copy, ".into(); tags.push("own-where,".into()); }
            _ => {}
        }
    }
    let _ = has_from;
    Some(FCase { item, tags })
}

// ---------------------------------------------------------------------------------------------------------------

const ENUM_PRESETS: &[(&str, &[&str])] = &[
    ("all-infallible", &["map"]),
    ("all-fallible", &["try_map"]),
    ("from-only", &["from"]),
    ("into-only", &["into"]),
    ("mixed", &["from_owned", "ref_try_into"]),
    ("owned", &["map_owned"]),
    ("existing", &["ref_into_existing"]),
];

pub fn gen_enum(ctx: &mut Ctx, o: &FOpts) -> Option<FCase> {
    let preset = ctx.choose(ENUM_PRESETS.len());
    let two = o.force_two || (o.two_counterparts && ctx.flag());
    let nv = 1 + ctx.choose(o.max_members);
    let mut tags = vec!["host=enum".to_string(), format!("preset={}", ENUM_PRESETS[preset].0)];
    if two {
        tags.push("two-counterparts".into());
    }
    let has_from = ENUM_PRESETS[preset].1.iter().any(|n| crate::model::appl(n).unwrap().0.iter().any(|d| d.is_from()));
    let has_into = ENUM_PRESETS[preset].1.iter().any(|n| crate::model::appl(n).unwrap().0.iter().any(|d| !d.is_from()));
    let mut variants = vec![];
    let mut any_ghost_variant = false;
    for k in 0..nv {
        let vname = ["A", "B", "C", "D"][k];
        let shape = [Shape::Unit, Shape::Tuple, Shape::Named][ctx.choose(3)];
        let ded = if two { [None, Some("T"), Some("U")][ctx.choose(3)] } else { None };
        let mut v = Variant { attrs: vec![], name: vname.into(), shape, fields: vec![] };
        match shape {
            Shape::Unit => {}
            Shape::Tuple => v.fields.push(Field::pos("i32")),
            Shape::Named => v.fields.push(Field::named("f", "i32")),
        }
        let menu = if o.full_menu { 9 } else { 5 };
        let c = ctx.choose(menu);
        tags.push(format!("v{}={}/{}", k, match shape { Shape::Unit => "unit", Shape::Tuple => "tuple", Shape::Named => "struct" }, c));
        match c {
            0 => {}
            1 => v.attrs.push(Instr::new("map", ded, &format!("X{}", k))),
            2 => {
                // ghost variant: exists only on this side; Into needs an action
                v.attrs.push(Instr::new("ghost", ded, &format!("{{ T::Z{} }}", k)));
                any_ghost_variant = true;
                if !v.fields.is_empty() {
                    // payload is ignored by the action
                }
            }
            3 => {
                // field-level instruction
                if v.fields.is_empty() {
                    return ctx.reject();
                }
                let tgt = if shape == Shape::Named { "g".to_string() } else { "0".to_string() };
                if shape == Shape::Named {
                    v.fields[0].attrs.push(Instr::new("map", ded, &format!("{}, *~ + 1", tgt)));
                } else {
                    v.fields[0].attrs.push(Instr::new("map", ded, "*~ + 1"));
                }
                if ENUM_PRESETS[preset].1.iter().any(|n| crate::model::appl(n).unwrap().0.iter().any(|d| !d.is_ref())) {
                    // `*~` only fits by-reference kinds; use the owned-safe form when owned kinds are requested
                    let fa = v.fields[0].attrs.last_mut().unwrap();
                    fa.body = fa.body.replace("*~ + 1", "~ + 1");
                    if ENUM_PRESETS[preset].1.iter().any(|n| crate::model::appl(n).unwrap().0.iter().any(|d| d.is_ref())) {
                        return ctx.reject(); // one expression cannot serve owned and by-ref payload bindings
                    }
                }
            }
            4 => {
                // type hint: the counterpart variant has the other form
                match shape {
                    Shape::Unit => v.attrs.push(Instr::new("type_hint", ded, "as ()")),
                    Shape::Tuple => {
                        v.attrs.push(Instr::new("type_hint", ded, "as {}"));
                        v.fields[0].attrs.push(Instr::new("map", ded, "g"));
                    }
                    Shape::Named => {
                        v.attrs.push(Instr::new("type_hint", ded, "as ()"));
                        v.fields[0].attrs.push(Instr::new("map", ded, "0"));
                    }
                }
            }
            5 => {
                // ghost payload field with default
                if v.fields.is_empty() {
                    return ctx.reject();
                }
                v.fields[0].attrs.push(Instr::new("ghost", ded, "{7}"));
                if shape == Shape::Tuple {
                    // (the hint is dedicated like the ghost: for another counterpart the payload field is mapped and the variant keeps its form)
                    v.attrs.push(Instr::new("type_hint", ded, "as Unit"));
                }
            }
            6 => {
                // variant-level ghosts: counterpart variant has an extra field
                if shape == Shape::Unit {
                    return ctx.reject();
                }
                if !has_into {
                    return ctx.reject();
                }
                let nm = if shape == Shape::Named { "gg".to_string() } else { "1".to_string() };
                v.attrs.push(Instr::new("ghosts", ded, &format!("{}: {{ 9 }}", nm)));
            }
            7 => {
                // rename + field rename
                v.attrs.push(Instr::new("map", ded, &format!("X{}", k)));
                if shape == Shape::Named {
                    v.fields[0].attrs.push(Instr::new("map", None, "g"));
                }
            }
            _ => {
                // member-level repeat on payload fields is covered by C14; here: ghost_owned / ghost_ref on a variant
                v.attrs.push(Instr::new(if ctx.flag() { "ghost_owned" } else { "ghost_ref" }, ded, &format!("{{ T::Z{} }}", k)));
                any_ghost_variant = true;
            }
        }
        variants.push(v);
    }
    let mut item = Item::new_enum("S", variants);
    let mut params_used = vec![];
    // enum-level ghosts (counterpart-only variants) need a From kind; ghost variants need an Into kind
    let eg = ctx.choose(3);
    for (ci, cp) in (if two { vec!["T", "U"] } else { vec!["T"] }).into_iter().enumerate() {
        for (ii, name) in ENUM_PRESETS[preset].1.iter().enumerate() {
            let mut body = format!("{}{}", cp, if is_fallible(name) { ", Er" } else { "" });
            let mut ps: Vec<String> = vec![];
            if o.params && ci == 0 && ii == 0 {
                for (pn, ptxt) in PARAM_MENU {
                    if ctx.flag() {
                        ps.push(ptxt.to_string());
                        params_used.push(*pn);
                    }
                }
            }
            // default case where the conversion is partial
            if (any_ghost_variant || eg > 0) && ctx.flag() {
                ps.push("_ => panic!(\"unmapped\")".into());
                params_used.push("default_case");
            }
            if !ps.is_empty() {
                body = format!("{}| {}", body, ps.join(", "));
            }
            item.attrs.push(Instr::new(name, None, &body));
        }
    }
    if eg > 0 {
        if !has_from {
            return ctx.reject();
        }
        let ded = if two && eg == 2 { Some("T") } else { None };
        if eg == 2 && !two {
            return ctx.reject();
        }
        item.attrs.push(Instr::new("ghosts", ded, "Y0: { S::A }, Y1(..): { S::A }, Y2 { .. }: { S::A }"));
        tags.push("enum-ghosts".into());
    }
    for p in &params_used {
        tags.push(format!("param={}", p));
    }
    if ctx.flag() {
        item.attrs.push(Instr::new("where_clause", None, "i32: Clone"));
        tags.push("where".into());
        match ctx.choose(3) {
            1 => { item.where_clause = "where i32: Copy".into(); tags.push("own-where".into()); }
            2 => { item.where_clause = "where i32: Copy, ".into(); tags.push("own-where,".into()); }
            _ => {}
        }
    }
    Some(FCase { item, tags })
}

/// enum -> primitive (literal / pattern) hosts
pub fn gen_enum_prim(ctx: &mut Ctx, _o: &FOpts) -> Option<FCase> {
    let nv = 1 + ctx.choose(3);
    let fallible = ctx.flag();
    // the primitive counterpart: i32, or `&'static str` with string literals / string patterns (owned kinds only)
    let strs = ctx.flag();
    if strs {
        return gen_enum_prim_str(ctx, nv, fallible);
    }
    let mut variants = vec![];
    let mut tags = vec!["host=enum-prim".to_string()];
    let mut any_pattern = false;
    for k in 0..nv {
        let mut v = Variant { attrs: vec![], name: ["A", "B", "C"][k].into(), shape: Shape::Unit, fields: vec![] };
        let c = ctx.choose(4);
        tags.push(format!("v{}={}", k, c));
        match c {
            0 => v.attrs.push(Instr::new("literal", None, &format!("{}", k + 1))),
            1 => {
                v.attrs.push(Instr::new("pattern", None, &format!("{}..={}", 10 * (k + 1), 10 * (k + 1) + 5)));
                v.attrs.push(Instr::new("into", None, &format!("{{ {} }}", 10 * (k + 1))));
                any_pattern = true;
            }
            2 => {
                v.attrs.push(Instr::new("pattern", None, "_"));
                v.attrs.push(Instr::new("into", None, &format!("{{ {} }}", 100 + k)));
                any_pattern = true;
            }
            _ => {
                // ghost variant with an Into action
                v.attrs.push(Instr::new("ghost", None, &format!("{{ {} }}", 90 + k)));
            }
        }
        variants.push(v);
    }
    let _ = any_pattern;
    let mut item = Item::new_enum("S", variants);
    if fallible {
        item.attrs.push(Instr::new("try_map", None, "i32, Er| _ => Err(Er(0))?"));
    } else {
        item.attrs.push(Instr::new("map", None, "i32| _ => panic!()"));
    }
    tags.push(format!("fallible={}", fallible));
    Some(FCase { item, tags })
}

fn gen_enum_prim_str(ctx: &mut Ctx, nv: usize, fallible: bool) -> Option<FCase> {
    let mut variants = vec![];
    let mut tags = vec!["host=enum-prim".to_string(), "prim=str".to_string()];
    for k in 0..nv {
        let mut v = Variant { attrs: vec![], name: ["A", "B", "C"][k].into(), shape: Shape::Unit, fields: vec![] };
        let c = ctx.choose(4);
        tags.push(format!("v{}={}", k, c));
        match c {
            0 => v.attrs.push(Instr::new("literal", None, &format!("\"l{}\"", k))),
            1 => {
                v.attrs.push(Instr::new("pattern", None, &format!("\"p{}a\" | \"p{}b\"", k, k)));
                v.attrs.push(Instr::new("into", None, &format!("{{ \"p{}a\" }}", k)));
            }
            2 => {
                v.attrs.push(Instr::new("pattern", None, "_"));
                v.attrs.push(Instr::new("into", None, &format!("{{ \"w{}\" }}", k)));
            }
            _ => v.attrs.push(Instr::new("ghost", None, &format!("{{ \"g{}\" }}", k))),
        }
        variants.push(v);
    }
    let mut item = Item::new_enum("S", variants);
    if fallible {
        item.attrs.push(Instr::new("try_map_owned", None, "StaticStr, Er| _ => Err(Er(0))?"));
    } else {
        item.attrs.push(Instr::new("map_owned", None, "StaticStr| _ => panic!()"));
    }
    tags.push(format!("fallible={}", fallible));
    Some(FCase { item, tags })
}

/// generic hosts: a struct (named / tuple) or an enum with type, lifetime and const parameters in every combination, an
/// optional own where clause and an optional `#[where_clause]`, under one trait instruction name (seed C20-08: what the
/// impl header and its where clause are made of must also come from the input)
pub fn gen_generic(ctx: &mut Ctx) -> Option<FCase> {
    let lt = ctx.flag();
    let ty = ctx.choose(3); // none | T | T: Clone
    let cn = ctx.flag();
    if !lt && ty == 0 && !cn {
        return ctx.reject();
    }
    let own_where = ty != 0 && ctx.flag();
    let instr_where = ty != 0 && ctx.flag();
    let host = ctx.choose(3); // named struct | tuple struct | enum
    const NAMES: [(&str, bool); 10] = [("map", false), ("map_owned", false), ("map_ref", false), ("from", false), ("into", false), ("into_existing", false), ("try_map", true), ("try_from_ref", true), ("ref_try_into", true), ("try_into_existing", true)];
    let (name, fallible) = NAMES[ctx.choose(NAMES.len())];
    if host == 2 && name.contains("into_existing") {
        return ctx.reject(); // KF-C16-01
    }
    let mut decl = vec![];
    let mut args = vec![];
    let mut fields: Vec<(String, String)> = vec![("x".into(), "i32".into())];
    if lt {
        decl.push("'a".to_string());
        args.push("'a".to_string());
        fields.push(("s".into(), "&'a str".into()));
    }
    if ty != 0 {
        decl.push(if ty == 2 { "T: Clone".to_string() } else { "T".to_string() });
        args.push("T".to_string());
        fields.push(("t".into(), "T".into()));
    }
    if cn {
        decl.push("const N: usize".to_string());
        args.push("N".to_string());
        fields.push(("arr".into(), "[i32; N]".into()));
    }
    let cp = format!("Tg<{}>", args.join(", "));
    let mk_field = |i: usize, f: &(String, String), named: bool| {
        let mut fl = if named { Field::named(&f.0, &f.1) } else { Field::pos(&f.1) };
        if f.0 == "t" || f.0 == "arr" {
            fl.attrs.push(Instr::new(if fallible { "try_map" } else { "map" }, None, &if named { "~.clone()".to_string() } else { format!("{}, ~.clone()", i) }));
        }
        fl
    };
    let mut item = match host {
        0 => Item::new_struct("S", Shape::Named, fields.iter().enumerate().map(|(i, f)| mk_field(i, f, true)).collect()),
        1 => Item::new_struct("S", Shape::Tuple, fields.iter().enumerate().map(|(i, f)| mk_field(i, f, false)).collect()),
        _ => Item::new_enum("S", vec![Variant { attrs: vec![], name: "A".into(), shape: Shape::Named, fields: fields.iter().enumerate().map(|(i, f)| mk_field(i, f, true)).collect() }, Variant { attrs: vec![], name: "B".into(), shape: Shape::Unit, fields: vec![] }]),
    };
    item.generics = format!("<{}>", decl.join(", "));
    if own_where {
        item.where_clause = "where T: Copy".into();
    }
    item.attrs.push(Instr::new(name, None, &if fallible { format!("{}, Er", cp) } else { cp.clone() }));
    if instr_where {
        item.attrs.push(Instr::new("where_clause", None, "T: Default"));
    }
    let tags = vec!["host=generic".to_string(), format!("lt={}", lt), format!("ty={}", ty), format!("const={}", cn), format!("own_where={}", own_where), format!("where_clause={}", instr_where), format!("shape={}", host), format!("name={}", name)];
    Some(FCase { item, tags })
}

/// the union corpus used by the structural / metamorphic checks
pub fn gen_any(ctx: &mut Ctx, o: &FOpts) -> Option<FCase> {
    match ctx.choose(3) {
        0 => gen_struct(ctx, o),
        1 => gen_enum(ctx, o),
        _ => gen_enum_prim(ctx, o),
    }
}
