//! C14 - repeat / skip_repeat / stop_repeat equal writing the instructions out.
//! Reference state machine M_rep (from the statement + README "Repeat member instructions", "'Permeating' repeat",
//! "Repeat trait instruction params") computes the written-out input; oracle: token-identical expansion.

use super::{fail, replay_space, run_space, Space};
use crate::explore::{Caps, Ctx};
use crate::item::{Body, Field, Instr, Item, Shape, Variant};
use crate::meta::{diff, expand_item, Out};
use crate::report::{Failure, Report};
use serde_json::json;

// ---------------------------------------------------------------------------------------------------------------
// M_rep, member level

/// repeat category of an instruction name (README: 'map', 'child', 'parent', 'ghost' (+ 'type_hint'))
fn category(name: &str) -> Option<&'static str> {
    if crate::model::appl(name).is_some() || name == "as_type" {
        return Some("map");
    }
    match name {
        "child" => Some("child"),
        "parent" => Some("parent"),
        "ghost" | "ghost_owned" | "ghost_ref" => Some("ghost"),
        "type_hint" => Some("type_hint"),
        _ => None,
    }
}

fn is_marker(i: &Instr) -> bool {
    matches!(i.name.as_str(), "repeat" | "skip_repeat" | "stop_repeat")
}

struct Block {
    instrs: Vec<Instr>,
    permeate: bool,
}

/// returns None when the sequence is a documented conflict (second repeat without stop_repeat)
fn step(block: &mut Option<Block>, attrs: &mut Vec<Instr>) -> Option<()> {
    let stop = attrs.iter().any(|i| i.name == "stop_repeat");
    let skip = attrs.iter().any(|i| i.name == "skip_repeat");
    let rep = attrs.iter().find(|i| i.name == "repeat").cloned();
    if stop {
        *block = None;
    }
    let own: Vec<Instr> = attrs.iter().filter(|i| !is_marker(i)).cloned().collect();
    if let Some(r) = rep {
        if block.is_some() {
            return None; // conflict
        }
        let body = r.body.replace(' ', "");
        let permeate = body.starts_with("permeate()");
        let cats_txt = body.trim_start_matches("permeate()").trim_start_matches(',').to_string();
        let cats: Vec<&str> = cats_txt.split(',').filter(|s| !s.is_empty()).collect();
        let sel: Vec<Instr> = own.iter().filter(|i| category(&i.name).map_or(false, |c| cats.is_empty() || cats.contains(&c))).cloned().collect();
        *block = Some(Block { instrs: sel, permeate });
        *attrs = own;
    } else if let Some(b) = block {
        let mut v = own;
        if !skip {
            v.extend(b.instrs.iter().cloned());
        }
        *attrs = v;
    } else {
        *attrs = own;
    }
    Some(())
}

/// the input with every member-level repeat written out (None: conflict)
pub fn write_out_members(item: &Item) -> Option<Item> {
    let mut out = item.clone();
    match &mut out.body {
        Body::Struct { fields, .. } | Body::Union { fields } => {
            let mut block = None;
            for f in fields.iter_mut() {
                step(&mut block, &mut f.attrs)?;
            }
        }
        Body::Enum { variants } => {
            let mut vblock = None;
            let mut fblock: Option<Block> = None;
            for v in variants.iter_mut() {
                // fields of the variant are processed before the variant's own attributes (same context object)
                for f in v.fields.iter_mut() {
                    step(&mut fblock, &mut f.attrs)?;
                }
                if let Some(b) = &fblock {
                    if !b.permeate {
                        fblock = None;
                    }
                }
                step(&mut vblock, &mut v.attrs)?;
            }
        }
    }
    Some(out)
}

// ---------------------------------------------------------------------------------------------------------------
// generators

pub struct Case {
    pub with_repeat: Item,
    pub written_out: Item,
    pub tags: Vec<String>,
    pub nontrivial: bool,
}

pub struct MemberRep {
    pub max_members: usize,
    pub enum_host: bool,
}

const STRUCT_CATS: &[&str] = &["", "map", "ghost", "child", "parent", "map, ghost", "child, map"];
const ENUM_CATS: &[&str] = &["", "map", "ghost", "permeate()", "permeate(), map", "permeate(), ghost"];

/// instructions a repeat member may carry (one per category, dedicated so that the combination stays meaningful)
fn payload(k: usize, enum_field: bool) -> Vec<Instr> {
    if enum_field {
        vec![Instr::new("map", Some("T"), &format!("~ + {}", 100 + k)), Instr::new("ghost", Some("U"), &format!("{{ {} }}", 200 + k))]
    } else {
        vec![
            Instr::new("map", Some("T"), &format!("~ + {}", 100 + k)),
            Instr::new("ghost", Some("U"), &format!("{{ {} }}", 200 + k)),
            Instr::new("child", Some("T"), "p"),
            Instr::new("parent", Some("V"), &format!("pa{k}, pb{k}")),
        ]
    }
}

/// one member's attribute list for an event
fn member_event(ctx: &mut Ctx, k: usize, cats: &[&str], enum_field: bool) -> (Vec<Instr>, &'static str) {
    match ctx.choose(6) {
        0 => (vec![], "plain"),
        1 => {
            // the member's own map-category instruction: same kind as the repeated one, or a different kind / dedication
            // (the repeated instruction must still reach the kinds the own one does not cover - seed C14-02)
            // ... or the member's own ghost that covers only one counterpart / only the owned kinds: everywhere else the
            // member is still mapped and the repeated instructions must reach it (seed C14-09)
            let (n, d, t) = [("map", Some("T"), "own"), ("from", Some("T"), "own-from"), ("into", Some("T"), "own-into"), ("from", None, "own-from-default"), ("ghost", Some("U"), "own-ghost-dedicated"), ("ghost_owned", None, "own-ghost-owned")][ctx.choose(6)];
            if n.starts_with("ghost") {
                (vec![Instr::new(n, d, &format!("{{ {} }}", 300 + k))], t)
            } else {
                (vec![Instr::new(n, d, &format!("~ + {}", 300 + k))], t)
            }
        }
        2 => {
            let c = cats[ctx.choose(cats.len())];
            let mut v = vec![Instr::new("repeat", None, c)];
            let pl = payload(k, enum_field);
            // every non-empty subset of the payload
            let sel = ctx.subset(pl.len());
            for (i, p) in pl.into_iter().enumerate() {
                if sel[i] || i == 0 && !sel.iter().any(|x| *x) {
                    v.push(p);
                }
            }
            (v, "repeat")
        }
        3 => (vec![Instr::word("skip_repeat"), Instr::new("map", Some("T"), &format!("~ + {}", 400 + k))], "skip"),
        4 => (vec![Instr::word("stop_repeat")], "stop"),
        _ => {
            let c = cats[ctx.choose(cats.len())];
            (vec![Instr::word("stop_repeat"), Instr::new("repeat", None, c), Instr::new("map", Some("T"), &format!("~ + {}", 500 + k))], "stop+repeat")
        }
    }
}

impl Space for MemberRep {
    type Case = Case;
    fn name(&self) -> String {
        format!("member-repeat({},{})", if self.enum_host { "enum" } else { "struct" }, self.max_members)
    }
    fn gen(&self, ctx: &mut Ctx) -> Option<Case> {
        let mut tags = vec![format!("host={}", if self.enum_host { "enum" } else { "struct" })];
        let item = if !self.enum_host {
            let n = 2 + ctx.choose(self.max_members - 1);
            let mut fields = vec![];
            let mut active = false; // a repeat block is open: a second `repeat` without `stop_repeat` is a documented conflict
            for k in 0..n {
                let (attrs, ev) = member_event(ctx, k, STRUCT_CATS, false);
                match ev {
                    "repeat" if active => return ctx.reject(), // pruned here instead of after the whole struct is generated
                    "repeat" | "stop+repeat" => active = true,
                    "stop" => active = false,
                    _ => {}
                }
                tags.push(format!("e{}={}", k, ev));
                fields.push(Field { attrs, name: Some(["a", "b", "c", "d", "e", "f"][k].into()), ty: "i32".into() });
            }
            let mut it = Item::new_struct("S", Shape::Named, fields);
            it.attrs = vec![Instr::new("map", None, "T"), Instr::new("into_existing", None, "T"), Instr::new("map", None, "U"), Instr::new("from", None, "V"), Instr::new("into_existing", None, "V"), Instr::new("child_parents", Some("T"), "p: P")];
            it
        } else {
            let nv = 1 + ctx.choose(3);
            let mut variants = vec![];
            let mut k = 0;
            for vi in 0..nv {
                let named = ctx.flag();
                // 0 fields = a unit variant (variant-level repeats must reach those too - seed C14-07)
                let nf = ctx.choose(self.max_members.min(3) + 1);
                let mut fields = vec![];
                for fi in 0..nf {
                    let (attrs, ev) = member_event(ctx, k, ENUM_CATS, true);
                    tags.push(format!("v{}f{}={}", vi, fi, ev));
                    fields.push(if named { Field { attrs, name: Some(["x", "y", "z"][fi].into()), ty: "i32".into() } } else { Field { attrs, name: None, ty: "i32".into() } });
                    k += 1;
                }
                // variant-level events
                let vattrs = match ctx.choose(5) {
                    0 => vec![],
                    1 => vec![Instr::new("repeat", None, ""), Instr::new("type_hint", Some("U"), if named { "as ()" } else { "as {}" })],
                    2 => vec![Instr::word("skip_repeat")],
                    3 => vec![Instr::word("stop_repeat")],
                    _ => vec![Instr::new("repeat", None, "map"), Instr::new("map", Some("T"), &format!("X{}", vi)), Instr::new("ghost", Some("U"), "{ U::Z }")],
                };
                tags.push(format!("v{}={}", vi, vattrs.first().map(|i| i.name.clone()).unwrap_or("plain".into())));
                variants.push(Variant { attrs: vattrs, name: ["A", "B", "C"][vi].into(), shape: if nf == 0 { Shape::Unit } else if named { Shape::Named } else { Shape::Tuple }, fields });
            }
            let mut it = Item::new_enum("S", variants);
            it.attrs = vec![Instr::new("map", None, "T"), Instr::new("map", None, "U| _ => panic!()")];
            it
        };
        let written = match write_out_members(&item) {
            Some(w) => w,
            None => return ctx.reject(), // a second repeat without stop_repeat is a documented conflict (C15)
        };
        let nontrivial = written != item_without_markers(&item);
        Some(Case { with_repeat: item, written_out: written, tags, nontrivial })
    }
    fn check(&self, c: Case, choices: &[u32], rep: &Report) {
        check_case(&self.name(), &c, choices, rep)
    }
}

fn item_without_markers(item: &Item) -> Item {
    let mut o = item.clone();
    for l in o.attr_lists_mut() {
        l.retain(|i| !is_marker(i));
    }
    o
}

// ---------------------------------------------------------------------------------------------------------------
// trait level

pub struct TraitRep {
    pub max_instr: usize,
    pub enum_host: bool,
}

const TRAIT_CATS: &[&str] = &["", "vars", "update", "quick_return", "default_case", "vars, update", "vars, quick_return, default_case"];

#[derive(Clone, Default, Debug)]
struct Params {
    vars: Option<String>,
    update: Option<String>,
    ret: Option<String>,
    dflt: Option<String>,
}

impl Params {
    fn render(&self, flags: &str) -> String {
        let mut v: Vec<String> = vec![];
        if !flags.is_empty() {
            v.push(flags.to_string());
        }
        if let Some(x) = &self.vars {
            v.push(format!("vars({})", x));
        }
        // `..`, `return`, `_ =>` end the parameter list: at most one of them can be written
        if let Some(x) = &self.update {
            v.push(format!("..{}", x));
        } else if let Some(x) = &self.ret {
            v.push(format!("return {}", x));
        } else if let Some(x) = &self.dflt {
            v.push(format!("_ => {}", x));
        }
        v.join(", ")
    }
    fn terminals(&self) -> usize {
        [&self.update, &self.ret, &self.dflt].iter().filter(|x| x.is_some()).count()
    }
}

impl Space for TraitRep {
    type Case = Case;
    fn name(&self) -> String {
        format!("trait-repeat({},{})", if self.enum_host { "enum" } else { "struct" }, self.max_instr)
    }
    fn gen(&self, ctx: &mut Ctx) -> Option<Case> {
        let n = 2 + ctx.choose(self.max_instr - 1);
        // a template is repeated onto later instructions of the SAME name only: `map_owned` / `from` overlap the two basic
        // names in the kinds they produce but are different instructions (seed C19-04 made a follower inherit from a
        // "wider" template)
        // `try_from_owned` is the fallible twin of `from_owned`: its own template slot (seed C15-06), and every instruction keeps
        // the error type it declares (seed C04-06)
        let names = ["from_owned", "owned_into", "map_owned", "from", "try_from_owned"];
        let mut slot: [Option<(Vec<String>, Params)>; 5] = [None, None, None, None, None];
        let mut with: Vec<Instr> = vec![];
        let mut without: Vec<Instr> = vec![];
        let mut tags = vec![format!("host={}", if self.enum_host { "enum" } else { "struct" })];
        let mut nontrivial = false;
        for k in 0..n {
            let ni = ctx.choose(5);
            let name = names[ni];
            // own parameters: subset of vars + at most one terminal
            let mut own = Params::default();
            if ctx.flag() {
                own.vars = Some(format!("k{k}: {{ {} }}", 10 + k));
            }
            match ctx.choose(4) {
                1 => own.update = Some(format!("base{k}()")),
                2 => own.ret = Some(format!("make({})", 20 + k)),
                3 => own.dflt = Some(format!("dflt({})", 30 + k)),
                _ => {}
            }
            let ev = ctx.choose(5); // plain | repeat(cats) | skip_repeat | stop_repeat | stop_repeat + repeat(cats)
            let (flags, is_repeat, skip, stop): (String, bool, bool, bool) = match ev {
                0 => (String::new(), false, false, false),
                1 => (format!("repeat({})", TRAIT_CATS[ctx.choose(TRAIT_CATS.len())]), true, false, false),
                2 => ("skip_repeat".into(), false, true, false),
                3 => ("stop_repeat".into(), false, false, true),
                _ => (format!("stop_repeat, repeat({})", TRAIT_CATS[ctx.choose(TRAIT_CATS.len())]), true, false, true),
            };
            tags.push(format!("i{}={}/{}", k, name, ["plain", "repeat", "skip", "stop", "stop+repeat"][ev]));
            let cp = if name.starts_with("try_") { format!("V{}, E{}", k, k) } else { format!("V{}", k) };
            with.push(Instr::new(name, None, &format!("{}| {}", cp, own.render(&flags)).trim_end_matches("| ").to_string()));
            // M_rep (trait level)
            if stop {
                slot[ni] = None;
            }
            let mut eff = own.clone();
            if is_repeat {
                if slot[ni].is_some() {
                    return ctx.reject(); // previous repeat() not terminated: documented conflict
                }
                let cats_txt = flags.rsplit("repeat(").next().unwrap().trim_end_matches(')').to_string();
                let cats: Vec<String> = if cats_txt.is_empty() { vec!["vars".into(), "update".into(), "quick_return".into(), "default_case".into()] } else { cats_txt.split(", ").map(|s| s.to_string()).collect() };
                slot[ni] = Some((cats, own.clone()));
            } else if let Some((cats, tpl)) = &slot[ni] {
                if !skip {
                    for c in cats {
                        let (mine, theirs) = match c.as_str() {
                            "vars" => (&mut eff.vars, &tpl.vars),
                            "update" => (&mut eff.update, &tpl.update),
                            "quick_return" => (&mut eff.ret, &tpl.ret),
                            _ => (&mut eff.dflt, &tpl.dflt),
                        };
                        if mine.is_some() {
                            return ctx.reject(); // "will be overriden": documented conflict
                        }
                        if theirs.is_some() {
                            nontrivial = true;
                        }
                        *mine = theirs.clone();
                    }
                }
            }
            if eff.terminals() > 1 {
                return ctx.reject(); // cannot be written out with one instruction (two terminal parameters)
            }
            without.push(Instr::new(name, None, &format!("{}| {}", cp, eff.render("")).trim_end_matches("| ").to_string()));
        }
        let mk = |attrs: Vec<Instr>| {
            if self.enum_host {
                let vs = vec![
                    Variant { attrs: vec![], name: "A".into(), shape: Shape::Unit, fields: vec![] },
                    Variant { attrs: vec![Instr::new("ghost", None, "{ make(1) }")], name: "B".into(), shape: Shape::Unit, fields: vec![] },
                ];
                let mut it = Item::new_enum("S", vs);
                it.attrs = attrs;
                it.attrs.push(Instr::new("ghosts", None, "Y: { S::A }"));
                it
            } else {
                let mut it = Item::new_struct("S", Shape::Named, vec![Field::named("a", "i32"), Field::named("b", "i32").with(Instr::new("ghost", None, "{ k0 }"))]);
                it.attrs = attrs;
                it
            }
        };
        Some(Case { with_repeat: mk(with), written_out: mk(without), tags, nontrivial })
    }
    fn check(&self, c: Case, choices: &[u32], rep: &Report) {
        check_case(&self.name(), &c, choices, rep)
    }
}

pub fn check_case(space: &str, c: &Case, choices: &[u32], rep: &Report) {
    let a_src = c.with_repeat.render();
    let b_src = c.written_out.render();
    rep.eval(2);
    rep.states.add_of(&a_src);
    if c.nontrivial {
        rep.nontrivial.add_of(&a_src);
    }
    let a = expand_item(&a_src);
    let b = expand_item(&b_src);
    rep.validate(1);
    rep.outputs.add_of(&a.out);
    match &a.out {
        Out::Impls(_) => rep.count("accepted", 1),
        Out::Errs(_) => rep.count("rejected", 1),
        Out::Panic(_) => rep.count("panicked", 1),
    }
    if let Some((kind, detail)) = diff(&a.out, &b.out, false) {
        // diagnostics of the two forms may legitimately differ in wording only when both are rejected for the same
        // reason; a different verdict or different impls is the violation
        let mut f = fail(space, choices, &a_src, &c.tags, &kind, detail);
        f.aux = b_src.clone();
        f.expected = "the expansion of the written-out input (M_rep)".into();
        rep.fail(f);
    }
    if rep.want_sample() && c.nontrivial && choices.iter().filter(|x| **x != 0).count() >= 4 {
        rep.sample(json!({"space": space, "choices": choices, "with_repeat": a_src, "written_out": b_src}));
    }
}

pub fn run(tier: &str) -> i32 {
    let rep = Report::new("C14", tier, "model_checking");
    rep.set_rule("member level: every event sequence {plain, own instruction (mapping of the same / another kind or dedication, ghost dedicated to one counterpart, ghost_owned), repeat(cats) + every non-empty subset of {map, ghost, child, parent} payload instructions, skip_repeat + own, stop_repeat, stop_repeat + repeat(cats)} over struct member lists of length <= n (n = 4 quick, 5 thorough) with 7 category filters; enums: <= 3 variants x <= 3 fields, named and tuple, permeating and non-permeating filters, variant-level repeat / skip / stop events. Trait level: every sequence of <= n instructions over 2 names x 5 events x 7 category filters x own parameter subsets {vars, one of update / return / default case}, struct and enum hosts. The reference machine M_rep computes the written-out input; derive(with repeat) must be token-identical to derive(written out) with the same accept/reject decision. Conflicting sequences (second repeat without stop_repeat, parameter overridden) are pruned (they are C15's). states = distinct inputs; non-trivial = inputs in which M_rep actually copies something");
    rep.assume("M_rep is written from the C14 statement and README (Repeat member instructions / Permeating repeat / Repeat trait instruction params); token-level comparison, in-process expansion");
    let quick = tier == "quick";
    let caps = Caps::from_env(if quick { 150.0 } else { 1500.0 });
    run_space(&MemberRep { max_members: if quick { 3 } else { 4 }, enum_host: false }, if quick { None } else { Some(9) }, &caps, &rep);
    run_space(&MemberRep { max_members: if quick { 2 } else { 3 }, enum_host: true }, if quick { Some(5) } else { Some(6) }, &caps, &rep);
    run_space(&TraitRep { max_instr: if quick { 3 } else { 4 }, enum_host: false }, if quick { Some(6) } else { Some(7) }, &caps, &rep);
    run_space(&TraitRep { max_instr: if quick { 3 } else { 4 }, enum_host: true }, if quick { Some(5) } else { Some(6) }, &caps, &rep);
    rep.finish()
}

pub fn replay(f: &Failure) -> i32 {
    let inner = f.space.split('(').nth(1).unwrap_or("").trim_end_matches(')');
    let p: Vec<&str> = inner.split(',').collect();
    let enum_host = p.first() == Some(&"enum");
    let n: usize = p.get(1).and_then(|x| x.parse().ok()).unwrap_or(3);
    if f.space.starts_with("member-repeat") {
        replay_space(&MemberRep { max_members: n, enum_host }, f, "C14")
    } else {
        replay_space(&TraitRep { max_instr: n, enum_host }, f, "C14")
    }
}
