//! Per-property checks. Every check = one or more *spaces* (generator + oracle) explored exhaustively by engine X.

use crate::explore::{explore, replay_one, Caps, Ctx};
use crate::report::{Failure, Report};
use serde_json::Value;

pub mod bcommon;
pub mod c01;
pub mod c02;
pub mod c03;
pub mod c04;
pub mod c05;
pub mod c06;
pub mod c07;
pub mod c08;
pub mod c09;
pub mod c10;
pub mod c11;
pub mod c12;
pub mod c14;
pub mod c15;
pub mod c16;
pub mod c17;
pub mod c18;
pub mod c19;
pub mod c20;
pub mod c20b;

/// A bounded space of cases with its oracle.
pub trait Space: Sync {
    type Case: Send;
    fn name(&self) -> String;
    fn gen(&self, ctx: &mut Ctx) -> Option<Self::Case>;
    /// run the real implementation on the case and compare with the oracle; report failures into `rep`
    fn check(&self, case: Self::Case, choices: &[u32], rep: &Report);
}

/// Explore a space completely (bound = None) or up to `bound` deviations.
pub fn run_space<S: Space>(space: &S, bound: Option<usize>, caps: &Caps, rep: &Report) {
    let name = space.name();
    let st = explore(|ctx| space.gen(ctx), bound, caps, |choices, case| space.check(case, choices, rep));
    let b = bound.map(|b| format!("dev({})", b)).unwrap_or_else(|| "full".into());
    rep.add_stats(&name, &b, &st);
    eprintln!("  space {} [{}]: {} choice vectors, {} pruned{}", name, b, st.leaves, st.pruned, if st.capped { " (CAPPED)" } else { "" });
}

/// Replay one choice vector of a space twice without the explorer; identical observations required.
pub fn replay_space<S: Space>(space: &S, f: &Failure, prop: &str) -> i32 {
    let mut obs: Vec<Vec<Failure>> = vec![];
    for _ in 0..2 {
        let rep = Report::new(prop, "quick", "exploration");
        let (case, full) = replay_one(|ctx| space.gen(ctx), &f.choices);
        if full != f.choices {
            eprintln!("MACHINERY-ERROR: replay divergence (choice vector re-rendered differently)");
            return 2;
        }
        match case {
            Some(c) => space.check(c, &full, &rep),
            None => {
                eprintln!("MACHINERY-ERROR: replayed choice vector is pruned by the generator");
                return 2;
            }
        }
        let fs = rep.failures.lock().unwrap().clone();
        obs.push(fs);
    }
    let key = |v: &Vec<Failure>| v.iter().map(|x| (x.kind.clone(), x.detail.clone(), x.input.clone())).collect::<Vec<_>>();
    if key(&obs[0]) != key(&obs[1]) {
        eprintln!("MACHINERY-ERROR: non-deterministic replay");
        return 2;
    }
    if let Some(first) = obs[0].first() {
        if first.input != f.input {
            eprintln!("MACHINERY-ERROR: replay rendered a different input than recorded\n--- recorded\n{}\n--- now\n{}", f.input, first.input);
            return 2;
        }
    }
    if obs[0].is_empty() {
        println!("replay: no failure on this tree for {} {:?}", f.space, f.choices);
        return 0;
    }
    for x in &obs[0] {
        println!("REPLAYED property={} kind={} detail={}", prop, x.kind, x.detail);
        println!("input:\n{}", x.input);
        if !x.aux.is_empty() {
            println!("aux:\n{}", x.aux);
        }
        if !x.expected.is_empty() {
            println!("expected: {}", x.expected);
        }
        if !x.observed.is_empty() {
            println!("observed: {}", x.observed);
        }
    }
    1
}

pub fn run_check(id: &str, tier: &str) -> i32 {
    match id {
        "C01" => c01::run(tier),
        "C02" => c02::run(tier),
        "C03" => c03::run(tier),
        "C04" => c04::run(tier),
        "C05" => c05::run(tier),
        "C06" => c06::run(tier),
        "C07" => c07::run(tier),
        "C08" => c08::run(tier),
        "C09" => c09::run(tier),
        "C10" => c10::run(tier),
        "C11" => c11::run(tier),
        "C12" => c12::run_c12(tier),
        "C13" => c12::run_c13(tier),
        "C14" => c14::run(tier),
        "C15" => c15::run(tier),
        "C16" => c16::run(tier),
        "C17" => c17::run(tier),
        "C18" => c18::run(tier),
        "C19" => c19::run(tier),
        "C20" => c20::run(tier),
        _ => {
            eprintln!("MACHINERY-ERROR: unknown property {}", id);
            2
        }
    }
}

pub fn run_replay(path: &str) -> i32 {
    let s = match std::fs::read_to_string(path) {
        Ok(s) => s,
        Err(e) => {
            eprintln!("MACHINERY-ERROR: cannot read {}: {}", path, e);
            return 2;
        }
    };
    let v: Value = serde_json::from_str(&s).unwrap();
    let prop = v["property"].as_str().unwrap_or("").to_string();
    let f: Failure = serde_json::from_value(v["failure"].clone()).unwrap();
    match prop.as_str() {
        "C01" => c01::replay(&f),
        "C02" => c02::replay(&f),
        "C03" => c03::replay(&f),
        "C04" => c04::replay(&f),
        "C05" => c05::replay(&f),
        "C06" => c06::replay(&f),
        "C07" => c07::replay(&f),
        "C08" => c08::replay(&f),
        "C09" => c09::replay(&f),
        "C10" => c10::replay(&f),
        "C11" => c11::replay(&f),
        "C12" => c12::replay_c12(&f),
        "C13" => c12::replay_c13(&f),
        "C14" => c14::replay(&f),
        "C15" => c15::replay(&f),
        "C16" => c16::replay(&f),
        "C17" => c17::replay(&f),
        "C18" => c18::replay(&f),
        "C19" => c19::replay(&f),
        "C20" => c20::replay(&f),
        _ => {
            eprintln!("MACHINERY-ERROR: unknown property {}", prop);
            2
        }
    }
}

pub fn fail(space: &str, choices: &[u32], input: &str, tags: &[String], kind: &str, detail: String) -> Failure {
    Failure { space: space.into(), choices: choices.to_vec(), input: input.into(), aux: String::new(), tags: tags.to_vec(), kind: kind.into(), detail, expected: String::new(), observed: String::new() }
}
