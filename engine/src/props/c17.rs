//! C17 - accepted inputs expand to syntactically valid impl items of the right shape.

use super::fail;
use crate::corpus;
use crate::explore::{Caps, Ctx};
use crate::feat::FCase;
use crate::ir::{analyse, OutIR, TraitK};
use crate::report::{Failure, Report};
use crate::xp::{canon, expand_ts, trunc, Xp};
use serde_json::json;

pub fn check_case(prop: &str, space: &str, choices: &[u32], c: &FCase, rep: &Report) {
    check_input(prop, space, choices, c.item.render(), &c.tags, rep)
}

pub fn check_input(prop: &str, space: &str, choices: &[u32], input: String, ctags: &[String], rep: &Report) {
    rep.eval(1);
    rep.states.add_of(&input);
    let r = expand_ts(&input);
    let ts = match r {
        Ok(Ok(ts)) => ts,
        Ok(Err(m)) => {
            rep.count("rejected", 1);
            rep.outputs.add_of(&m);
            return; // C17 quantifies over accepted inputs only
        }
        Err(Xp::Panic { msg, loc }) => {
            // panics are C16's business; counted, not reported here
            rep.count("panicked(C16)", 1);
            rep.outputs.add_of(&(msg, loc));
            return;
        }
        Err(x) => {
            eprintln!("MACHINERY-ERROR: corpus produced a non-item: {} :: {}", x.short(), input);
            std::process::exit(2);
        }
    };
    rep.count("accepted", 1);
    rep.validate(1);
    rep.nontrivial.add_of(&input);
    let text = canon(&ts);
    rep.outputs.add_of(&text);
    let mut problems: Vec<(String, String)> = vec![];
    match analyse(&ts) {
        OutIR::Unparsable(e) => problems.push(("unparsable-output".into(), format!("generated code does not parse: {}", e))),
        OutIR::Impls(impls, others) => {
            if others > 0 {
                problems.push(("bad-shape".into(), format!("{} non-impl item(s) in the output", others)));
            }
            if impls.is_empty() {
                problems.push(("bad-shape".into(), "no impl items".into()));
            }
            for i in &impls {
                let tk = match TraitK::of_path(&i.trait_path) {
                    Some(t) => t,
                    None => {
                        problems.push(("bad-shape".into(), format!("impl of an unexpected trait {:?}", i.trait_path)));
                        continue;
                    }
                };
                if i.methods.len() != 1 || i.other_items != 0 {
                    problems.push(("bad-shape".into(), format!("{:?}: {} fns, {} other items", tk, i.methods.len(), i.other_items)));
                    continue;
                }
                let m = &i.methods[0];
                if m.name != tk.method() {
                    problems.push(("bad-shape".into(), format!("{:?}: method is named {}", tk, m.name)));
                }
                let n_err = i.assoc_types.iter().filter(|a| a.0 == "Error").count();
                if i.assoc_types.len() != n_err || n_err != if tk.fallible() { 1 } else { 0 } {
                    problems.push(("bad-shape".into(), format!("{:?}: associated types {:?}", tk, i.assoc_types)));
                }
                // documented signatures
                let arg = i.trait_args.first().cloned().unwrap_or_default();
                let sig_ok = match tk {
                    TraitK::From => m.inputs == vec![format!("value : {}", arg)] && m.output == i.self_ty,
                    TraitK::TryFrom => m.inputs == vec![format!("value : {}", arg)] && m.output.starts_with(": : core : : result : : Result <") && m.output.contains(&i.self_ty),
                    TraitK::Into => m.inputs == vec!["self".to_string()] && m.output == arg,
                    TraitK::TryInto => m.inputs == vec!["self".to_string()] && m.output.starts_with(": : core : : result : : Result <") && m.output.contains(&arg),
                    TraitK::IntoExisting => m.inputs == vec!["self".to_string(), format!("other : & mut {}", arg)] && m.output.is_empty(),
                    TraitK::TryIntoExisting => m.inputs == vec!["self".to_string(), format!("other : & mut {}", arg)] && m.output.starts_with(": : core : : result : : Result < ( ) ,"),
                };
                if !sig_ok {
                    problems.push(("bad-shape".into(), format!("{:?}: signature fn {}({}) -> {}", tk, m.name, m.inputs.join(", "), m.output)));
                }
                if tk.fallible() && n_err == 1 {
                    let et = &i.assoc_types.iter().find(|a| a.0 == "Error").unwrap().1;
                    // (cases that say which error type they declared: it is THE error type of every fallible impl)
                    if let Some(decl) = ctags.iter().find_map(|t| t.strip_prefix("declared-error=")) {
                        let want = crate::xp::atoms_of_str(decl).map(|a| a.join(" ")).unwrap_or_default();
                        if *et != want {
                            problems.push(("bad-shape".into(), format!("{:?}: `type Error = {}` but the instruction declares `{}`", tk, et, want)));
                        }
                    }
                    if !m.output.ends_with(&format!(", {} >", et)) {
                        problems.push(("bad-shape".into(), format!("{:?}: Result error type differs from `type Error = {}`: {}", tk, et, m.output)));
                    }
                }
            }
        }
    }
    for (kind, detail) in problems {
        let mut f = fail(space, choices, &input, ctags, &kind, detail);
        f.observed = trunc(&text, 900);
        f.expected = "a sequence of impl items of the six conversion traits, one fn each with the documented signature".into();
        rep.fail(f);
    }
    if rep.want_sample() && choices.iter().filter(|x| **x != 0).count() >= 3 {
        rep.sample(json!({"space": space, "choices": choices, "input": input, "output": trunc(&text, 400)}));
    }
    let _ = prop;
}

/// fallible instructions on hosts whose counterpart is of the other kind (tuple struct / tuple variant `as {}`, named
/// variant `as ()`): the member names come from fallible member instructions only, or from infallible ones, or from
/// both; every fallible trait-instruction name x error type forms (plain, generic, qualified generic, boxed trait
/// object) - seeds C17-08 (error type printed without its arguments) and C17-09 (pattern named from infallible
/// instructions only)
pub fn gen_fallible_forms(ctx: &mut Ctx) -> Option<(String, Vec<String>)> {
    const ERR: [&str; 4] = ["Er", "Er<i32>", "m::Er<i32>", "Box<dyn std::error::Error>"];
    const NAMES: [&str; 9] = ["try_map", "try_from", "try_into", "try_map_owned", "try_map_ref", "try_from_ref", "ref_try_into", "try_into_existing", "ref_try_into_existing"];
    let host = ctx.choose(3); // tuple struct as {} | enum tuple variant as {} | enum named variant as ()
    let name = NAMES[ctx.choose(NAMES.len())];
    if host != 0 && name.contains("into_existing") {
        return ctx.reject(); // KF-C16-01
    }
    let er = ERR[ctx.choose(ERR.len())];
    // how each of the two members is named: fallible instruction only | infallible only | an expression with the name
    let mut members = vec![];
    let mut mtags = vec![];
    for k in 0..2 {
        let target = if host == 2 { k.to_string() } else { format!("n{}", k) };
        let m = match ctx.choose(3) {
            0 => { mtags.push("fallible-name"); format!("#[try_map({})]", target) }
            1 => { mtags.push("infallible-name"); format!("#[map({})]", target) }
            _ => { mtags.push("fallible-name+expr"); format!("#[try_map({}, ~.clone())]", target) }
        };
        members.push(m);
    }
    let src = match host {
        0 => format!("#[{}(T as {{}}, {})]\nstruct S({} i32, {} i32);\n", name, er, members[0], members[1]),
        1 => format!("#[{}(T, {})]\nenum S {{ #[type_hint(as {{}})] V({} i32, {} i32), B }}\n", name, er, members[0], members[1]),
        _ => format!("#[{}(T, {})]\nenum S {{ #[type_hint(as ())] V {{ {} x: i32, {} y: i32 }}, B }}\n", name, er, members[0], members[1]),
    };
    let tags = vec![format!("host={}", ["tuple-struct-as-named", "tuple-variant-as-named", "named-variant-as-tuple"][host]), format!("name={}", name), format!("declared-error={}", er), format!("m0={}", mtags[0]), format!("m1={}", mtags[1])];
    Some((src, tags))
}

pub fn run(tier: &str) -> i32 {
    let rep = Report::new("C17", tier, "exploration");
    rep.set_rule("every input of the host corpus (semantic struct cases; feature-interaction product for structs: shape x hint x 8 kind presets x 1-2 counterparts x 13-entry member menu incl. child/parent/repeat/as_type x ghosts x trait-instruction params vars/update/return/attributes x where_clause; for enums: variant shape x 9-entry variant menu x enum ghosts x default case; enum->primitive literal/pattern hosts) is expanded; for every ACCEPTED input the output must parse as a Rust file (syn 2 full) of impl items only, each of one of the six traits (path read structurally), with exactly one fn of the documented name and signature and `type Error` iff fallible; `fallible-forms`: 9 fallible instruction names x 4 error type forms x hosts mapped to the other kind (tuple struct / tuple variant `as {}`, named variant `as ()`) x members named by fallible and / or infallible instructions - `type Error` must be the declared type. states = distinct inputs; non-trivial = accepted inputs");
    rep.assume("embedded expressions, types and patterns of the corpus are well-formed by construction; `parses` is judged by syn 2 (rustc judges the B-engine properties)");
    let caps = Caps::from_env(if tier == "quick" { 120.0 } else { 1200.0 });
    corpus::for_each(if tier == "quick" { "quick" } else { "mid" }, &caps, &rep, |space, choices, c| check_case("C17", space, choices, &c, &rep));
    // exotic but WELL-FORMED embedded types, patterns, expressions, attribute contents and where predicates (the forms of
    // C18's token-forms space that a real parser accepts in their syntactic category) in every hole that forwards them
    let st = crate::explore::explore(
        |ctx| {
            let (src, tags) = super::c18::gen_token_forms(ctx)?;
            if !super::c18::form_is_well_formed(&tags) {
                return ctx.reject();
            }
            Some((src, tags))
        },
        None,
        &caps,
        |choices, (src, tags)| check_input("C17", "token-forms", choices, src, &tags, &rep),
    );
    rep.add_stats("token-forms", "full", &st);
    let st = crate::explore::explore(gen_fallible_forms, None, &caps, |choices, (src, tags)| check_input("C17", "fallible-forms", choices, src, &tags, &rep));
    rep.add_stats("fallible-forms", "full", &st);
    rep.finish()
}

pub fn replay(f: &Failure) -> i32 {
    if f.space == "token-forms" || f.space == "fallible-forms" {
        let rep = Report::new("C17", "quick", "exploration");
        check_input("C17", &f.space, &f.choices, f.input.clone(), &f.tags, &rep);
        let fs = rep.failures.lock().unwrap();
        for x in fs.iter() {
            println!("REPLAYED property=C17 kind={} detail={}", x.kind, x.detail);
        }
        if fs.is_empty() {
            println!("replay: no failure on this tree");
        }
        println!("input:\n{}", f.input);
        return if fs.is_empty() { 0 } else { 1 };
    }
    let c = match corpus::replay_case(&["quick", "thorough"], &f.space, &f.choices) {
        Some(c) => c,
        None => {
            eprintln!("MACHINERY-ERROR: cannot re-render {} {:?}", f.space, f.choices);
            return 2;
        }
    };
    if c.item.render() != f.input {
        eprintln!("MACHINERY-ERROR: replay rendered a different input than recorded");
        return 2;
    }
    let mut obs = vec![];
    for _ in 0..2 {
        let rep = Report::new("C17", "quick", "exploration");
        check_case("C17", &f.space, &f.choices, &c, &rep);
        let fs: Vec<(String, String)> = rep.failures.lock().unwrap().iter().map(|x| (x.kind.clone(), x.detail.clone())).collect();
        obs.push(fs);
    }
    if obs[0] != obs[1] {
        eprintln!("MACHINERY-ERROR: non-deterministic replay");
        return 2;
    }
    if obs[0].is_empty() {
        println!("replay: no failure on this tree");
        return 0;
    }
    for (k, d) in &obs[0] {
        println!("REPLAYED property=C17 kind={} detail={}", k, d);
    }
    println!("input:\n{}", f.input);
    1
}
