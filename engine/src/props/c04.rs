//! C04 - each trait instruction yields exactly the documented set of trait impls.

use super::{fail, replay_space, run_space, Space};
use crate::explore::{Caps, Ctx};
use crate::ir::{analyse, OutIR, TraitK};
use crate::model::{all_trait_names, appl, hdr, Dir, Kind};
use crate::report::{Failure, Report};
use crate::xp::{canon, expand_ts, trunc, Xp};
use serde_json::json;
use std::collections::BTreeMap;

pub struct Case {
    pub input: String,
    pub tags: Vec<String>,
    /// expected impl headers: (trait, self type, trait argument, error type or "")
    pub expected: Vec<(TraitK, String, String, String)>,
}

pub struct Hdrs {
    pub max_instr: usize,
}

const CP_FORMS: &[(&str, &str)] = &[("plain", "T"), ("qualified", "m::T"), ("generic", "T<i32>"), ("turbofish", "T::<i32>"), ("tuple", "(i32, i32)"), ("deep", "a::b::T<m::X, i32>"), ("self", "S")];
// the third form shares its LAST path segment with the first counterpart (`T` / `m::T` vs `n::T`): still another type (seed C04-09)
const CP2_FORMS: &[(&str, &str)] = &[("plain", "U"), ("qualified", "m::U"), ("same-last-segment", "n::T")];
const ER_FORMS: &[(&str, &str)] = &[("plain", "Er"), ("qualified", "m::Er"), ("generic", "Er<i32>"), ("qualified-turbofish", "m::Er::<i32>")];

fn norm_ty(s: &str) -> String {
    // canonical token text; `T::<X>` and `T<X>` denote the same type
    let c = crate::xp::atoms_of_str(s).map(|a| a.join(" ")).unwrap_or_else(|_| s.to_string());
    c.replace(": : <", "<")
}

fn trait_of(k: Kind) -> TraitK {
    match (k.dir, k.fallible) {
        (Dir::FromOwned | Dir::FromRef, false) => TraitK::From,
        (Dir::FromOwned | Dir::FromRef, true) => TraitK::TryFrom,
        (Dir::OwnedInto | Dir::RefInto, false) => TraitK::Into,
        (Dir::OwnedInto | Dir::RefInto, true) => TraitK::TryInto,
        (_, false) => TraitK::IntoExisting,
        (_, true) => TraitK::TryIntoExisting,
    }
}

impl Space for Hdrs {
    type Case = Case;
    fn name(&self) -> String {
        format!("headers(<={})", self.max_instr)
    }
    fn gen(&self, ctx: &mut Ctx) -> Option<Case> {
        let names = all_trait_names();
        let is_enum = ctx.flag();
        let k = 1 + ctx.choose(self.max_instr);
        let cpf = ctx.choose(CP_FORMS.len());
        let cp2f = ctx.choose(CP2_FORMS.len());
        let erf = ctx.choose(ER_FORMS.len());
        let mut instrs: Vec<(String, usize)> = vec![]; // (name, counterpart 0|1)
        let mut used: Vec<(usize, Dir, bool)> = vec![];
        for i in 0..k {
            let name = names[ctx.choose(names.len())];
            let cp = if i == 0 { 0 } else { ctx.choose(2) };
            let (dirs, fallible) = appl(name).unwrap();
            for d in &dirs {
                if used.contains(&(cp, *d, fallible)) {
                    return ctx.reject(); // duplicate instruction for one (kind, counterpart): documented misuse (C15)
                }
                used.push((cp, *d, fallible));
            }
            // From<T> and TryFrom<T> may both be requested (they are distinct impls); coherence is rustc's business
            instrs.push((name.to_string(), cp));
        }
        if is_enum && CP_FORMS[cpf].0 == "tuple" {
            return ctx.reject(); // an enum has no tuple counterpart
        }
        // member-by-member into_existing is not implemented for enums (KF-C17-03); with a quick return it is, and the
        // instruction must still produce its impls (seed C04-03)
        // every order
        let perm = ctx.permutation(k);
        let cp_txt = [CP_FORMS[cpf].1, CP2_FORMS[cp2f].1];
        let er_txt = ER_FORMS[erf].1;
        let mut src = String::new();
        for &pi in &perm {
            let (name, cp) = &instrs[pi];
            let fallible = appl(name).unwrap().1;
            let qr = if is_enum && appl(name).unwrap().0.iter().any(|d| d.is_existing()) { "| return todo!()" } else { "" };
            src.push_str(&format!("#[{}({}{}{})]\n", name, cp_txt[*cp], if fallible { format!(", {}", er_txt) } else { String::new() }, qr));
        }
        if is_enum {
            src.push_str("enum S { A, B }\n");
        } else if CP_FORMS[cpf].0 == "tuple" {
            src.push_str("struct S { #[map(0)] a: i32, #[map(1)] b: i32 }\n");
        } else {
            src.push_str("struct S { a: i32 }\n");
        }
        let mut expected = vec![];
        for (name, cp) in &instrs {
            let (dirs, fallible) = appl(name).unwrap();
            for d in dirs {
                let kd = Kind { dir: d, fallible };
                let h = hdr(kd);
                let cpt = norm_ty(cp_txt[*cp]);
                let self_ty = if h.self_is_ref { "& S".to_string() } else { "S".to_string() };
                let arg = if h.arg_is_ref { format!("& {}", cpt) } else { cpt };
                expected.push((trait_of(kd), self_ty, arg, if fallible { norm_ty(er_txt) } else { String::new() }));
            }
        }
        expected.sort();
        let mut tags = vec![format!("host={}", if is_enum { "enum" } else { "struct" }), format!("cp={}", CP_FORMS[cpf].0), format!("n={}", k)];
        if used.iter().any(|u| u.2) {
            tags.push(format!("er={}", ER_FORMS[erf].0));
        }
        if used.iter().any(|u| u.0 == 1) {
            tags.push(format!("cp2={}", CP2_FORMS[cp2f].0));
        }
        for (n, _) in &instrs {
            tags.push(format!("instr={}", n));
        }
        Some(Case { input: src, tags, expected })
    }
    fn check(&self, case: Case, choices: &[u32], rep: &Report) {
        rep.eval(1);
        rep.states.add_of(&case.input);
        if case.expected.len() > 1 {
            rep.nontrivial.add_of(&case.input);
        }
        let space = self.name();
        let ts = match expand_ts(&case.input) {
            Ok(Ok(ts)) => ts,
            Ok(Err(m)) => {
                rep.outputs.add_of(&m);
                let mut f = fail(&space, choices, &case.input, &case.tags, "rejected-valid-input", m.iter().skip(1).cloned().collect::<Vec<_>>().join(" | "));
                f.observed = format!("{:?}", m);
                rep.fail(f);
                return;
            }
            Err(Xp::Panic { msg, loc }) => {
                rep.outputs.add_of(&(&msg, &loc));
                rep.fail(fail(&space, choices, &case.input, &case.tags, "panic", format!("{} @ {}", msg, loc.split(':').next().unwrap_or(""))));
                return;
            }
            Err(x) => {
                eprintln!("MACHINERY-ERROR: not an item: {} :: {}", x.short(), case.input);
                std::process::exit(2);
            }
        };
        rep.validate(1);
        let text = canon(&ts);
        rep.outputs.add_of(&text);
        let observed: Vec<(TraitK, String, String, String)> = match analyse(&ts) {
            OutIR::Unparsable(e) => {
                let mut f = fail(&space, choices, &case.input, &case.tags, "unparsable-output", e);
                f.observed = trunc(&text, 600);
                rep.fail(f);
                return;
            }
            OutIR::Impls(impls, _) => {
                let mut v = vec![];
                for i in &impls {
                    match TraitK::of_path(&i.trait_path) {
                        Some(tk) => {
                            let err = i.assoc_types.iter().find(|a| a.0 == "Error").map(|a| a.1.replace(": : <", "<")).unwrap_or_default();
                            v.push((tk, i.self_ty.replace(": : <", "<"), i.trait_args.first().cloned().unwrap_or_default().replace(": : <", "<"), err));
                        }
                        None => {
                            rep.fail(fail(&space, choices, &case.input, &case.tags, "unexpected-trait", format!("{:?}", i.trait_path)));
                        }
                    }
                }
                v.sort();
                v
            }
        };
        if observed != case.expected {
            let mut cnt: BTreeMap<&(TraitK, String, String, String), i64> = BTreeMap::new();
            for e in &case.expected {
                *cnt.entry(e).or_insert(0) += 1;
            }
            for o in &observed {
                *cnt.entry(o).or_insert(0) -= 1;
            }
            let missing: Vec<String> = cnt.iter().filter(|x| *x.1 > 0).map(|x| format!("{:?}", x.0)).collect();
            let extra: Vec<String> = cnt.iter().filter(|x| *x.1 < 0).map(|x| format!("{:?}", x.0)).collect();
            // classify: only the error type differs?
            let strip = |v: &Vec<(TraitK, String, String, String)>| v.iter().map(|x| (x.0, x.1.clone(), x.2.clone())).collect::<Vec<_>>();
            let kind = if strip(&observed) == strip(&case.expected) { "wrong-error-type" } else { "wrong-impl-set" };
            let mut f = fail(&space, choices, &case.input, &case.tags, kind, format!("missing {} extra {}", missing.len(), extra.len()));
            f.expected = format!("missing: {}", missing.join("; "));
            f.observed = format!("extra: {}", extra.join("; "));
            rep.fail(f);
        }
        if rep.want_sample() && case.expected.len() >= 5 {
            rep.sample(json!({"choices": choices, "input": case.input, "expected_impls": case.expected.iter().map(|e| format!("{:?} for {} <{}> err={}", e.0, e.1, e.2, e.3)).collect::<Vec<_>>()}));
        }
    }
}

pub fn run(tier: &str) -> i32 {
    let rep = Report::new("C04", tier, "model_checking");
    rep.set_rule("every multiset of <= k of the 24 trait-instruction names (k=2 quick, 3 thorough) over 1-2 counterparts whose (kind, fallibility, counterpart) sets do not overlap, in EVERY order, x 7 counterpart type forms (plain, qualified, generic, turbofish, bare tuple, deep generic path, the deriving type itself) x 4 error type forms x struct|enum host; the multiset of impl headers (trait path read structurally, Self type, trait argument, `type Error`) of the real expansion must equal M_appl o M_hdr (README:190-264). states = distinct inputs; non-trivial = inputs for which more than one impl is expected");
    rep.assume("`T::<X>` and `T<X>` are treated as the same type in headers; header = (trait, Self, argument, Error) - bodies are C01-C03's business");
    let caps = Caps::from_env(if tier == "quick" { 100.0 } else { 1200.0 });
    if tier == "quick" {
        run_space(&Hdrs { max_instr: 2 }, None, &caps, &rep);
    } else {
        run_space(&Hdrs { max_instr: 3 }, None, &caps, &rep);
    }
    rep.finish()
}

pub fn replay(f: &Failure) -> i32 {
    let n: usize = f.space.trim_start_matches("headers(<=").trim_end_matches(')').parse().unwrap_or(2);
    replay_space(&Hdrs { max_instr: n }, f, "C04")
}
