//! C18 - the syn 1 and syn 2 back-ends behave identically (differential: two builds of the same engine).

use super::c16;
use super::Space;
use crate::corpus;
use crate::explore::{explore, Caps, Ctx};
use crate::report::{Failure, Report};
use crate::xp::{expand, Xp};
use rayon::prelude::*;
use serde_json::{json, Value};
use std::io::{BufRead, Write};
use std::sync::Mutex;

struct In {
    space: String,
    choices: Vec<u32>,
    tags: Vec<String>,
    src: String,
}

const ATTR_NAMES: &[&str] = &["map", "from_owned", "try_into", "ghost", "ghosts", "child", "child_parents", "parent", "where_clause", "literal", "pattern", "type_hint", "as_type", "repeat", "skip_repeat", "allow_unknown", "o2o", "doc", "serde", "cfg_attr", "derive"];
const ATTR_ARGS: &[(&str, &str)] = &[
    ("none", ""), ("empty-paren", "()"), ("paren", "(T)"), ("paren-trailing", "(T,)"), ("bracket", "[T]"), ("brace", "{T}"), ("eq-str", " = \"v\""), ("eq-expr", " = T"), ("paren-nested", "(T(x))"), ("paren-as", "(T as {})"),
    ("paren-generic", "(T<i32>)"), ("paren-turbofish", "(T::<i32>)"), ("paren-path", "(m::T)"), ("paren-ded", "(T| x)"), ("paren-lit", "(1)"), ("paren-str", "(\"s\")"),
];
const ATTR_HOSTS: &[(&str, &str)] = &[
    ("struct-type", "#[map(T)]\n@@\nstruct S { a: i32 }"),
    ("struct-field", "#[map(T)]\nstruct S { @@ a: i32 }"),
    ("tuple-field", "#[map(T)]\nstruct S(@@ i32);"),
    ("enum-type", "#[map(T)]\n@@\nenum S { A, B(i32) }"),
    ("enum-variant", "#[map(T)]\nenum S { @@ A, B(i32) }"),
    ("enum-vfield", "#[map(T)]\nenum S { A, B(@@ i32) }"),
    ("no-trait-instr", "@@\nstruct S { a: i32 }"),
];

fn gen_attr_forms(ctx: &mut Ctx) -> Option<(String, Vec<String>)> {
    let h = ctx.choose(ATTR_HOSTS.len());
    let n = ctx.choose(ATTR_NAMES.len());
    let a = ctx.choose(ATTR_ARGS.len());
    // inside an o2o(..) list or bare
    let wrap = ctx.choose(3);
    let name = ATTR_NAMES[n];
    let attr = match wrap {
        0 => format!("#[{}{}]", name, ATTR_ARGS[a].1),
        1 => {
            if ATTR_ARGS[a].1.starts_with(" =") {
                return ctx.reject();
            }
            format!("#[o2o({}{})]", name, ATTR_ARGS[a].1)
        }
        _ => {
            if ATTR_ARGS[a].1.starts_with(" =") {
                return ctx.reject();
            }
            format!("#[o2o({}{}, allow_unknown)]", name, ATTR_ARGS[a].1)
        }
    };
    Some((ATTR_HOSTS[h].1.replace("@@", &attr), vec![format!("host={}", ATTR_HOSTS[h].0), format!("name={}", name), format!("args={}", ATTR_ARGS[a].0), format!("wrap={}", wrap)]))
}

const CP_FORMS: &[&str] = &[
    "p: P", "p: P,", "p: P, p.q: Q", "p: P, p.q: Q,", "p : P , p . q : Q", "p: P as {}", "p: P as (), p.q: Q as {}", "p: m::P<i32>, p.q: Q", "T| p: P, p.q: Q", "T | p: P, p.q: Q", "0: P, 0.1: Q", "p: P p.q: Q", "p.q: Q", "p: P, p: P",
    "p: P as Unit, p.q: Q", "p: P,, p.q: Q", "", "p", "p: ", "p.q.r: R, p: P, p.q: Q",
];
const CP_HOSTS: &[&str] = &[
    "#[map(T)]\n#[child_parents(@@)]\nstruct S { #[child(p)] a: i32, #[child(p.q)] b: i32 }",
    "#[into(T)]\n#[o2o(child_parents(@@))]\nstruct S { #[child(p.q)] b: i32 }",
    "#[map(T as {})]\n#[child_parents(@@)]\nstruct S(#[child(p)] #[map(x)] i32, #[child(p.q)] #[map(y)] i32);",
    "#[map(T)]\n#[ghosts(p.q@g: {1})]\n#[child_parents(@@)]\nstruct S { #[child(p)] a: i32 }",
];

fn gen_cp_forms(ctx: &mut Ctx) -> Option<(String, Vec<String>)> {
    let h = ctx.choose(CP_HOSTS.len());
    let f = ctx.choose(CP_FORMS.len());
    Some((CP_HOSTS[h].replace("@@", CP_FORMS[f]), vec![format!("cphost={}", h), format!("cpform={}", CP_FORMS[f])]))
}

/// Places where o2o forwards the user's tokens as they are, filled with forms on which the two parser libraries are
/// known to differ when a *typed* parser (syn::Meta, syn::Lit, syn::Pat, syn::Expr, syn::Type ..) is put in the way
/// (seeds C18-04: attribute contents through syn::Meta; C18-05: #[literal] through syn::Lit).
const TOKEN_HOLES: &[(&str, &str, &[&str])] = &[
    ("attribute", "#[map(T| attribute(@@))]\nstruct S { a: i32 }", META_FORMS),
    ("impl_attribute", "#[into(T| impl_attribute(@@))]\nstruct S { a: i32 }", META_FORMS),
    ("inner_attribute", "#[from(T| inner_attribute(@@))]\nstruct S { a: i32 }", META_FORMS),
    ("attribute-enum", "#[try_map(T, Er| attribute(@@))]\nenum S { A, B(i32) }", META_FORMS),
    ("literal", "#[map(T)]\nenum S { #[literal(@@)] A, #[pattern(_)] #[into({ todo!() })] B }", LIT_FORMS),
    ("literal-dedicated", "#[map(T)]\nenum S { #[literal(T| @@)] A, #[pattern(_)] #[into({ todo!() })] B }", LIT_FORMS),
    ("pattern", "#[from(T)]\nenum S { #[pattern(@@)] A, #[pattern(_)] B }", PAT_FORMS),
    ("member-expr", "#[map(T)]\nstruct S { #[map({ @@ })] a: i32 }", EXPR_FORMS),
    ("ghost-expr", "#[map(T)]\nstruct S { #[ghost({ @@ })] a: i32 }", EXPR_FORMS),
    ("ghosts-expr", "#[map(T)]\n#[ghosts(g: { @@ })]\nstruct S { a: i32 }", EXPR_FORMS),
    ("vars-expr", "#[map(T| vars(v: { @@ }))]\nstruct S { a: i32 }", EXPR_FORMS),
    ("return-expr", "#[into(T| return @@)]\nstruct S { a: i32 }", EXPR_FORMS),
    ("update-expr", "#[into(T| ..@@)]\nstruct S { a: i32 }", EXPR_FORMS),
    ("default-case", "#[from(T| _ => @@)]\n#[ghosts(Y: { S::A })]\nenum S { A }", EXPR_FORMS),
    ("as_type", "#[map(T)]\nstruct S { #[o2o(as_type(@@))] a: i32 }", TYPE_FORMS),
    ("counterpart", "#[map(@@)]\nstruct S { a: i32 }", TYPE_FORMS),
    ("error-type", "#[try_map(T, @@)]\nstruct S { a: i32 }", TYPE_FORMS),
    ("child_parents-type", "#[into(T)]\n#[child_parents(p: @@)]\nstruct S { #[child(p)] a: i32 }", TYPE_FORMS),
    ("where_clause", "#[map(T)]\n#[where_clause(@@)]\nstruct S<X> { a: X }", WHERE_FORMS),
    // places where a member name / index / path is expected
    ("rename-member", "#[map(T)]\nstruct S { #[map(@@)] a: i32 }", MEMBER_FORMS),
    ("ghosts-key", "#[map(T)]\n#[ghosts(@@: { 1 })]\nstruct S { a: i32 }", MEMBER_FORMS),
    ("child-path", "#[into(T)]\n#[child_parents(@@: P)]\nstruct S { #[child(@@)] a: i32 }", MEMBER_FORMS),
    ("variant-rename", "#[map(T)]\nenum S { #[map(@@)] A, B }", MEMBER_FORMS),
    ("vars-name", "#[map(T| vars(@@: { 1 }))]\nstruct S { a: i32 }", MEMBER_FORMS),
    ("parent-member", "#[map(T)]\nstruct S { #[parent(@@, y)] p: P }", MEMBER_FORMS),
];
const MEMBER_FORMS: &[&str] = &[
    "x", "r#type", "try", "dyn", "async", "await", "self", "Self", "super", "crate", "union", "auto", "macro_rules", "default", "_", "0", "1", "1u8", "0x1", "x.y", "x.0", "0.x", "1 .0", "1.0", "'a", "x y", "-1", "x::y",
];
const META_FORMS: &[&str] = &[
    "inline", "inline(always)", "cfg(any(a, b))", "doc = \"x\"", "doc = concat!(\"a\", \"b\")", "doc = include_str!(\"x.md\")", "tracing::instrument(level = Level::DEBUG, fields(id = self.id))",
    "cfg_attr(test, allow(unused))", "allow(clippy::all)", "deprecated(since = \"1\", note = \"n\")", "must_use = \"m\"", "a::b::c", "x(1 + 2)", "x(y = -1)", "x(y = 1u8..2)", "rustfmt::skip",
    "x(unsafe)", "x { y }", "x[y]", "x = y::Z", "unsafe(no_mangle)",
];
const LIT_FORMS: &[&str] = &[
    "1", "-1", "1u8", "1_000", "0x1F", "0b1", "1.5", "1e3", "1f32", "'a'", "'\\n'", "\"s\"", "r\"s\"", "r#\"s\"#", "b\"s\"", "br\"s\"", "b'a'", "true", "c\"s\"", "cr\"s\"", "u8::MAX", "X", "m::X", "-1.5", "{ 1 }", "(1)",
];
const PAT_FORMS: &[&str] = &[
    "1", "-1", "1..=2", "1..", "..=2", "'a'..='z'", "\"a\" | \"b\"", "| 1 | 2", "_", "n", "n if n > 1", "n @ 1..=5", "n @ (1 | 2)", "&1", "(1, _)", "[a, ..]", "[1, .., 2]", "m::X", "X { a, .. }", "X(..)", "ref n", "mut n",
    "const { 1 }", "m!()", "(1 | 2)", "..", "Some(1 | 2)", "&mut n", "box n", "1 ..= 2 | 4",
];
const EXPR_FORMS: &[&str] = &[
    "1", "-1", "a + b", "f(x)", "x.y.z", "x.0.1", "|a| a + 1", "move |a: i32| -> i32 { a }", "async { 1 }", "async move { 1 }", "unsafe { f() }", "'l: loop { break 'l 1 }", "if a { 1 } else { 2 }",
    "match a { 1 => 2, _ => 3 }", "<T as X>::f()", "T::<i32>::f()", "m![1, 2]", "m! { a }", "x as u8", "&x", "&mut x", "*x", "x?", "x.await", "r#type", "r#try", "a..=b", "..", "a..", "[1, 2]", "[0; 4]", "(1, 2)", "()",
    "X { a: 1, ..y }", "#[cfg(x)] 1", "let a = 1", "{ let a = 1; a }", "a = 1", "a += 1", "return 1", "break", "1u8", "1.5e3", "b\"s\"", "c\"s\"", "'a'", "a.b::<c>()", "x[1]", "!x", "a && b || c", "a << 2", "try { 1 }",
    "const { 1 }", "yield 1", "loop {}", "while a {}", "for a in b {}", "a < b > c", "||{}", "static || 1", "do yeet 1", "&raw const x", "builtin # offset_of(a, b)",
];
const TYPE_FORMS: &[&str] = &[
    "i32", "m::T", "m::T<i32>", "m::T<'a>", "m::n::T<i32, 'a>", "T<i32>", "T::<i32>", "T<'a>", "T<'static>", "T<'_>", "T<1>", "T<{ 1 }>", "T<-1>", "T<A = B>", "T<A: B>", "<T as X>::Y", "[u8; 4]", "[u8]", "&'static str", "&mut T", "*const T", "dyn Tr", "dyn Tr + Send",
    "impl Tr", "fn(i32) -> i32", "(i32, i16)", "()", "!", "_", "T<(i32, i16)>", "T<[u8; 4]>", "T<dyn Tr>", "::m::T", "crate::T", "self::T", "super::T", "Self", "T<fn(i32)>", "m::T<i32>::U", "T<T<T<i32>>>", "T<i32,>", "T<>",
    "T(i32) -> i32", "Fn(i32) -> i32", "T<Fn(u8) -> u8>", "[T; { N }]", "T<[u8; { N }]>", "T<Y<W> = Z>", "T<Item: Clone>", "T<{ N + 1 }>", "T<{ m!() }>", "[u8; m!()]", "T<&'a str>", "m!()", "T<A = (B, C)>", "for<'a> fn(&'a i32)", "T<'a, 'a>", "unsafe extern \"C\" fn()",
];
const WHERE_FORMS: &[&str] = &[
    "X: Clone", "X: Clone + Copy", "X: ?Sized", "X: 'static", "'a: 'b", "for<'a> X: Tr<'a>", "X: for<'a> Tr<'a>", "X: Tr<A = i32>", "X: m::Tr", "[X; 2]: Tr", "<X as Tr>::Y: Clone", "X: ~const Tr", "X: Clone,", "X: Clone, X: Copy",
    "X:", "(): Tr", "X: Fn(i32) -> i32", "X: Tr<{ 1 }>", "X: !Tr", "X: const Tr", "i32: Into<X>", "X = i32", "X: Tr + ?Sized + 'static", "X: Lend<Item<'a> = &'a u8>", "X: Tr<Y: Clone>",
];

pub fn gen_token_forms(ctx: &mut Ctx) -> Option<(String, Vec<String>)> {
    let (hole, host, forms) = TOKEN_HOLES[ctx.choose(TOKEN_HOLES.len())];
    let f = forms[ctx.choose(forms.len())];
    Some((host.replace("@@", f), vec![format!("hole={}", hole), format!("form={}", f)]))
}

fn o2o_messages(x: &Xp) -> Vec<String> {
    // o2o-authored configuration diagnostics: everything under the root error (parser-library wording is exempt)
    match x {
        Xp::Err(m) if m.first().map(|s| s.as_str()) == Some("Cannot expand o2o macro") => {
            let mut v: Vec<String> = m[1..].to_vec();
            v.sort();
            v
        }
        _ => vec![],
    }
}

pub fn run(tier: &str) -> i32 {
    let rep = Report::new("C18", tier, "exploration");
    rep.set_rule("the union corpus (host corpus of well-formed inputs; C16's instruction-pair and single-token-mutation spaces = valid and invalid inputs; an attribute-form space {21 attribute names incl. foreign ones} x {16 argument forms: none, (), (..), [..], {..}, = \"v\", = expr, generic/turbofish/qualified paths, ...} x {bare, o2o(..), o2o(.., allow_unknown)} x 7 positions; a child_parents separator/hint/trailing-comma space) is expanded by two builds of the same harness - o2o-impl with feature syn (syn 1) and with feature syn2 (syn 2) - and joined by case key: verdicts (accept / reject / panic) must be equal, accepted token streams identical, and the sets of o2o-authored configuration diagnostics (messages under the root error) equal. states = distinct inputs; non-trivial = inputs rejected by at least one back-end");
    rep.assume("inputs are valid rustc attribute syntax; a DeriveInput parse failure of the parser library counts as `reject` (it is a compile error in the real macro); parser-library wording is exempt as the statement allows");
    let b2 = match std::env::var("O2OV_B2") {
        Ok(p) => p,
        Err(_) => {
            eprintln!("MACHINERY-ERROR: O2OV_B2 (syn2 build of the engine) not set; run through ./check");
            return 2;
        }
    };
    let caps = Caps::from_env(if tier == "quick" { 150.0 } else { 1500.0 });
    let ins: Mutex<Vec<In>> = Mutex::new(vec![]);
    let push = |space: &str, ch: &[u32], tags: Vec<String>, src: String| ins.lock().unwrap().push(In { space: space.into(), choices: ch.to_vec(), tags, src });
    corpus::for_each(if tier == "quick" { "quick" } else { "mid" }, &caps, &rep, |space, ch, c| push(&format!("corpus/{}", space), ch, c.tags.clone(), c.item.render()));
    {
        let sp = c16::Combo { n: 2, curated: true };
        let st = explore(|ctx| sp.gen(ctx), if tier == "quick" { Some(3) } else { None }, &caps, |ch, c| push("c16/combo", ch, c.tags.clone(), c.input.clone()));
        rep.add_stats("c16/combo(2,curated)", if tier == "quick" { "dev(3)" } else { "full" }, &st);
        let sp = c16::Mutate;
        let st = explore(|ctx| sp.gen(ctx), if tier == "quick" { Some(4) } else { None }, &caps, |ch, c| push("c16/mutate", ch, c.tags.clone(), c.input.clone()));
        rep.add_stats("c16/mutate", if tier == "quick" { "dev(4)" } else { "full" }, &st);
    }
    let st = explore(gen_attr_forms, None, &caps, |ch, (src, tags)| push("attr-forms", ch, tags, src));
    rep.add_stats("attr-forms", "full", &st);
    let st = explore(gen_cp_forms, None, &caps, |ch, (src, tags)| push("child-parents-forms", ch, tags, src));
    let st2 = explore(gen_token_forms, None, &caps, |ch, (src, tags)| push("token-forms", ch, tags, src));
    rep.add_stats("token-forms", "full", &st2);
    rep.add_stats("child-parents-forms", "full", &st);
    let mut ins = ins.into_inner().unwrap();
    ins.sort_by(|a, b| (&a.space, &a.choices).cmp(&(&b.space, &b.choices)));
    let mut seen = std::collections::HashSet::new();
    ins.retain(|i| seen.insert(crate::report::h64(&i.src)));
    eprintln!("  {} distinct inputs", ins.len());
    // syn1 side: in-process
    let r1: Vec<Xp> = ins.par_iter().map(|i| expand(&i.src)).collect();
    // syn2 side: the other build
    let dir = format!("{}/work/c18-{}", crate::report::verif_dir(), std::process::id());
    let _ = std::fs::create_dir_all(&dir);
    let inp = format!("{}/in.jsonl", dir);
    let outp = format!("{}/out.jsonl", dir);
    {
        let mut w = std::io::BufWriter::new(std::fs::File::create(&inp).unwrap());
        for (k, i) in ins.iter().enumerate() {
            writeln!(w, "{}", json!({"k": k.to_string(), "s": i.src})).unwrap();
        }
    }
    let st = std::process::Command::new(&b2).args(["expand-file", &inp, &outp]).status();
    if !matches!(st, Ok(s) if s.success()) {
        eprintln!("MACHINERY-ERROR: syn2 build of the engine failed to run: {:?}", st);
        return 2;
    }
    let f = std::fs::File::open(&outp).unwrap();
    let mut r2: Vec<Option<Xp>> = (0..ins.len()).map(|_| None).collect();
    for line in std::io::BufReader::new(f).lines() {
        let v: Value = serde_json::from_str(&line.unwrap()).unwrap();
        let k: usize = v["k"].as_str().unwrap().parse().unwrap();
        let msgs = || v["m"].as_array().map(|a| a.iter().map(|x| x.as_str().unwrap_or("").to_string()).collect::<Vec<_>>()).unwrap_or_default();
        r2[k] = Some(match v["v"].as_str().unwrap() {
            "ok" => Xp::Ok(v["t"].as_str().unwrap().to_string()),
            "err" => Xp::Err(msgs()),
            "panic" => Xp::Panic { msg: msgs().join(" "), loc: String::new() },
            _ => Xp::NotAnItem(msgs().join(" ")),
        });
    }
    let _ = std::fs::remove_dir_all(&dir);
    let class = |x: &Xp| match x {
        Xp::Ok(_) => "accept",
        Xp::Err(_) | Xp::NotAnItem(_) => "reject",
        Xp::Panic { .. } => "panic",
    };
    for (k, i) in ins.iter().enumerate() {
        let a = &r1[k];
        let b = match &r2[k] {
            Some(b) => b,
            None => {
                eprintln!("MACHINERY-ERROR: syn2 build returned no result for case {}", k);
                return 2;
            }
        };
        rep.eval(2);
        rep.validate(1);
        rep.states.add_of(&i.src);
        rep.outputs.add_of(&(class(a), class(b)));
        if class(a) != "accept" || class(b) != "accept" {
            rep.nontrivial.add_of(&i.src);
        }
        let mut problem: Option<(String, String)> = None;
        if class(a) != class(b) {
            problem = Some(("different-verdict".into(), format!("syn1={} syn2={}", class(a), class(b))));
        } else if let (Xp::Ok(ta), Xp::Ok(tb)) = (a, b) {
            if ta != tb {
                problem = Some(("different-expansion".into(), "token streams differ".into()));
            }
        } else if o2o_messages(a) != o2o_messages(b) {
            // both reject: the o2o-authored diagnostics must agree (when both reached validation)
            let (ma, mb) = (o2o_messages(a), o2o_messages(b));
            if !ma.is_empty() && !mb.is_empty() {
                problem = Some(("different-diagnostics".into(), format!("syn1 {:?} syn2 {:?}", ma, mb)));
            }
        }
        if let Some((kind, detail)) = problem {
            let mut f = super::fail(&i.space, &i.choices, &i.src, &i.tags, &kind, detail);
            f.expected = format!("syn1: {}", a.short());
            f.observed = format!("syn2: {}", b.short());
            rep.fail(f);
        }
        if rep.want_sample() && class(a) == "reject" && i.space == "attr-forms" {
            rep.sample(json!({"space": i.space, "choices": i.choices, "input": i.src, "syn1": a.short(), "syn2": b.short()}));
        }
    }
    rep.finish()
}

pub fn replay(f: &Failure) -> i32 {
    // the recorded input is self-contained: expand it with both builds again
    let b2 = match std::env::var("O2OV_B2") {
        Ok(p) => p,
        Err(_) => {
            eprintln!("MACHINERY-ERROR: O2OV_B2 not set; run through ./check");
            return 2;
        }
    };
    let dir = format!("{}/work/c18r-{}", crate::report::verif_dir(), std::process::id());
    let _ = std::fs::create_dir_all(&dir);
    let inp = format!("{}/in.jsonl", dir);
    let outp = format!("{}/out.jsonl", dir);
    std::fs::write(&inp, format!("{}\n", json!({"k": "0", "s": f.input}))).unwrap();
    let a = expand(&f.input);
    let a2 = expand(&f.input);
    let st = std::process::Command::new(&b2).args(["expand-file", &inp, &outp]).status();
    if !matches!(st, Ok(s) if s.success()) || a != a2 {
        eprintln!("MACHINERY-ERROR: replay failed to run deterministically");
        return 2;
    }
    let out = std::fs::read_to_string(&outp).unwrap_or_default();
    let _ = std::fs::remove_dir_all(&dir);
    println!("input:\n{}\nsyn1: {}\nsyn2: {}", f.input, a.short(), crate::xp::trunc(&out, 1200));
    println!("REPLAYED property=C18 kind={} (compare the two lines above)", f.kind);
    1
}

/// is the form placed by `gen_token_forms` well-formed in its syntactic category (judged by syn 2 with the `full` feature)?
pub fn form_is_well_formed(tags: &[String]) -> bool {
    use syn2::parse::Parser;
    let hole = tags.iter().find_map(|t| t.strip_prefix("hole=")).unwrap_or("");
    let form = tags.iter().find_map(|t| t.strip_prefix("form=")).unwrap_or("");
    let ok = crate::xp::quiet_catch(|| match hole {
        "attribute" | "impl_attribute" | "inner_attribute" | "attribute-enum" => syn2::parse_str::<syn2::Meta>(form).is_ok(),
        "literal" | "literal-dedicated" => syn2::parse_str::<syn2::Expr>(form).is_ok() && syn2::Pat::parse_multi_with_leading_vert.parse_str(form).is_ok(),
        "pattern" => syn2::Pat::parse_multi_with_leading_vert.parse_str(form).is_ok() || form.contains(" if "),
        // a counterpart has to be usable as a struct-literal path: generic arguments on the last segment only
        "counterpart" => match syn2::parse_str::<syn2::Type>(form) {
            Ok(syn2::Type::Path(tp)) => tp.qself.is_none() && tp.path.segments.iter().rev().skip(1).all(|s| s.arguments.is_none()),
            _ => false,
        },
        "as_type" | "error-type" | "child_parents-type" => syn2::parse_str::<syn2::Type>(form).is_ok(),
        "where_clause" => syn2::parse_str::<syn2::WhereClause>(&format!("where {}", form)).is_ok(),
        // a member name, index or dotted path
        "rename-member" | "ghosts-key" | "variant-rename" | "vars-name" | "parent-member" => syn2::parse_str::<syn2::Member>(form).is_ok(),
        "child-path" => form.split('.').all(|p| syn2::parse_str::<syn2::Member>(p.trim()).is_ok()),
        // (a `let` expression is only meaningful inside a condition; syn 2 cannot parse a braced block as a struct-update base)
        _ => syn2::parse_str::<syn2::Expr>(form).map_or(false, |e| !matches!(e, syn2::Expr::Let(_))) && !(hole == "update-expr" && form.starts_with('{')),
    });
    matches!(ok, Ok(true))
}
