//! C11 - generics, lifetimes and where-clauses are carried so the impl type-checks (engine B; oracle = rustc + a test
//! body that borrows stack-local data through every by-reference conversion).

use super::bcommon::{run_items, BItem};
use crate::explore::{explore, replay_one, Caps, Ctx};
use crate::report::{Failure, Report};
use crate::rt::BOpts;
use std::fmt::Write;
use std::sync::Mutex;

#[derive(Clone, Debug, PartialEq)]
pub enum P {
    Lt(&'static str),                // 'a
    Ty { bound: bool, default: bool }, // T | T: Clone | T = i32 | T: Clone = i32
    Const { default: bool },          // const N: usize [= 2]
}

#[derive(Clone, Debug)]
pub struct GCase {
    pub params: Vec<P>,
    pub own_where: bool,      // `where T: Copy` on the deriving type
    /// 0 = counterpart mirrors the deriving type's parameters; 1 = deriving type not generic, counterpart with concrete
    /// arguments (X::<i32>); 2 = lifetime only on the counterpart (X::<'x>), by-ref Into only (README "Lifetimes")
    pub mode: usize,
    pub where_instr: usize,   // 0 none | 1 default | 2 dedicated
    pub turbofish: bool,
    /// mode 2 only: 0 = `X<'x>`; 1 = the same counterpart-only lifetime twice `X<'x, 'x>`; 2 = two of them `X<'x, 'y>`
    pub lt_form: usize,
    /// the counterpart is written as a module-qualified path (`self::X<..>`)
    pub qual: bool,
    /// the second lifetime parameter is declared with a bound (`'b: 'a`): bounds belong to the declaration only (seed C11-08)
    pub lt_bound: bool,
    pub tags: Vec<String>,
}

pub fn gen(ctx: &mut Ctx) -> Option<GCase> {
    let mode = ctx.choose(5);
    let mut params = vec![];
    if mode == 4 {
        // README "Lifetimes", first scenario: the result borrows from the reference itself ('o2o must outlive 'a + 'b)
        params.push(P::Lt("'a"));
        if ctx.flag() {
            params.push(P::Lt("'b"));
        }
    }
    if mode == 3 {
        // the deriving type has its own parameters AND the counterpart has a lifetime of its own
        if ctx.flag() {
            params.push(P::Lt("'a"));
        }
        params.push(P::Ty { bound: ctx.flag(), default: false });
    }
    if mode == 0 {
        // <= 3 parameters in an order Rust allows (lifetimes first; types and consts in any order)
        let nl = ctx.choose(3);
        for i in 0..nl {
            params.push(P::Lt(["'a", "'b"][i]));
        }
        let ty = ctx.choose(5); // none | T | T: Clone | T = i32 | T: Clone = i32
        let cn = ctx.choose(3); // none | const N | const N = 2
        let const_first = ty > 0 && cn > 0 && ctx.flag();
        let typ = match ty {
            0 => None,
            1 => Some(P::Ty { bound: false, default: false }),
            2 => Some(P::Ty { bound: true, default: false }),
            3 => Some(P::Ty { bound: false, default: true }),
            _ => Some(P::Ty { bound: true, default: true }),
        };
        let cnp = match cn {
            0 => None,
            1 => Some(P::Const { default: false }),
            _ => Some(P::Const { default: true }),
        };
        // a defaulted parameter must not be followed by a non-defaulted one
        if const_first {
            if let (Some(P::Const { default: true }), Some(P::Ty { default: false, .. })) = (&cnp, &typ) {
                return ctx.reject();
            }
            params.extend(cnp);
            params.extend(typ);
        } else {
            if let (Some(P::Ty { default: true, .. }), Some(P::Const { default: false })) = (&typ, &cnp) {
                return ctx.reject();
            }
            params.extend(typ);
            params.extend(cnp);
        }
        if params.is_empty() {
            return ctx.reject();
        }
    }
    let has_ty = params.iter().any(|p| matches!(p, P::Ty { .. }));
    let own_where = has_ty && ctx.flag();
    let where_instr = if has_ty && mode != 3 { ctx.choose(5) } else { 0 };
    let turbofish = mode != 4 && ctx.flag();
    let lt_form = if mode == 2 { ctx.choose(4) } else { 0 };
    let qual = mode != 4 && ctx.flag();
    let lt_bound = params.iter().filter(|p| matches!(p, P::Lt(_))).count() == 2 && ctx.flag();
    let mut tags = vec![format!("mode={}", ["mirror", "concrete-args", "counterpart-lifetime", "counterpart-lifetime+own-params", "borrow-from-reference"][mode]), format!("where_instr={}", where_instr), format!("turbofish={}", turbofish)];
    for p in &params {
        tags.push(match p {
            P::Lt(_) => "param=lifetime".to_string(),
            P::Ty { bound, default } => format!("param=type{}{}", if *bound { "+bound" } else { "" }, if *default { "+default" } else { "" }),
            P::Const { default } => format!("param=const{}", if *default { "+default" } else { "" }),
        });
    }
    if own_where {
        tags.push("own-where".into());
    }
    if params.iter().any(|p| matches!(p, P::Ty { bound: true, .. } | P::Ty { default: true, .. } | P::Const { .. })) {
        tags.push("declaration-form-differs-from-argument-form".into());
    }
    if lt_form > 0 {
        tags.push(format!("counterpart-lifetimes={}", ["once", "same-twice", "two", "static"][lt_form]));
    }
    if qual {
        tags.push("qualified-counterpart-path".into());
    }
    if lt_bound {
        tags.push("bounded-lifetime-parameter".into());
    }
    tags.sort();
    tags.dedup();
    Some(GCase { params, own_where, mode, where_instr, turbofish, lt_form, qual, lt_bound, tags })
}

impl GCase {
    fn decl(&self) -> String {
        if self.params.is_empty() {
            return String::new();
        }
        let v: Vec<String> = self
            .params
            .iter()
            .map(|p| match p {
                P::Lt(l) => if self.lt_bound && *l == "'b" { "'b: 'a".to_string() } else { l.to_string() },
                P::Ty { bound, default } => format!("T{}{}", if *bound { ": Clone" } else { "" }, if *default { " = i32" } else { "" }),
                P::Const { default } => format!("const N: usize{}", if *default { " = 2" } else { "" }),
            })
            .collect();
        format!("<{}>", v.join(", "))
    }
    /// parameters in declaration form without defaults and bounds (for the counterpart's own definition)
    fn decl_plain(&self) -> String {
        if self.params.is_empty() {
            return String::new();
        }
        let v: Vec<String> = self.params.iter().map(|p| match p { P::Lt(l) => l.to_string(), P::Ty { .. } => "T".to_string(), P::Const { .. } => "const N: usize".to_string() }).collect();
        format!("<{}>", v.join(", "))
    }
    fn args(&self) -> String {
        if self.params.is_empty() {
            return String::new();
        }
        let v: Vec<String> = self.params.iter().map(|p| match p { P::Lt(l) => l.to_string(), P::Ty { .. } => "T".to_string(), P::Const { .. } => "N".to_string() }).collect();
        v.join(", ")
    }
    fn fields(&self, pubk: bool) -> String {
        let pk = if pubk { "pub " } else { "" };
        let mut v = vec![format!("{pk}x: i32")];
        for p in &self.params {
            match p {
                P::Lt(l) => v.push(format!("{pk}r{}: &{} i32", &l[1..], l)),
                P::Ty { .. } => v.push(format!("{pk}t: T")),
                P::Const { .. } => v.push(format!("{pk}arr: [u8; N]")),
            }
        }
        v.join(", ")
    }
    fn has_ty(&self) -> bool {
        self.params.iter().any(|p| matches!(p, P::Ty { .. }))
    }
    /// can `T` be cloned in the impls (needed by the by-reference kinds)?
    fn t_clone(&self) -> bool {
        self.params.iter().any(|p| matches!(p, P::Ty { bound: true, .. })) || self.where_instr > 0 || self.own_where
    }
    fn cp_path(&self, twin: bool) -> String {
        let n = match (twin, self.qual) {
            (false, false) => "X",
            (true, false) => "Xf",
            (false, true) => "self::X",
            (true, true) => "self::Xf",
        };
        let tf = if self.turbofish { "::" } else { "" };
        match self.mode {
            0 => format!("{}{}<{}>", n, tf, self.args()),
            1 => format!("{}{}<i32>", n, tf),
            2 => format!("{}{}<{}>", n, tf, ["'x", "'x, 'x", "'x, 'y", "'static"][self.lt_form]),
            4 => n.to_string(),
            _ => format!("{}{}<'x, {}>", n, tf, self.args()),
        }
    }
    pub fn item_text(&self) -> String {
        let mut o = String::new();
        match self.mode {
            0 | 1 => {
                let refs = self.mode == 1 || !self.has_ty() || self.t_clone();
                for (twin, t, e) in [(false, "", ""), (true, "try_", ", Er")] {
                    let cp = self.cp_path(twin);
                    if refs {
                        let _ = writeln!(o, "#[{t}map({cp}{e})]\n#[{t}into_existing({cp}{e})]");
                    } else {
                        let _ = writeln!(o, "#[{t}map_owned({cp}{e})]\n#[owned_{t}into_existing({cp}{e})]");
                    }
                }
                // with an own `where T: Clone` the instruction adds a DIFFERENT predicate: both must reach the impl
                // (seed C11-03 dropped the own predicates whenever a where_clause instruction applied)
                let wp = if self.own_where { "T: core::fmt::Debug" } else { "T: Clone" };
                match self.where_instr {
                    // a default clause that does not help + dedicated clauses that do: the dedicated one must reach its counterpart's impls
                    3 => {
                        let _ = writeln!(o, "#[where_clause(T: Sized)]\n#[where_clause({}| {wp})]\n#[where_clause({}| {wp})]", self.cp_path(false), self.cp_path(true));
                    }
                    4 => {
                        let _ = writeln!(o, "#[where_clause({}| {wp})]\n#[where_clause(T: Sized)]\n#[where_clause({}| {wp})]", self.cp_path(false), self.cp_path(true));
                    }
                    1 => {
                        let _ = writeln!(o, "#[where_clause({wp})]");
                    }
                    2 => {
                        // a dedicated clause per counterpart
                        let _ = writeln!(o, "#[where_clause({}| {wp})]\n#[where_clause({}| {wp})]", self.cp_path(false), self.cp_path(true));
                    }
                    _ => {}
                }
                let w = if self.own_where { " where T: Clone" } else { "" };
                if self.mode == 0 {
                    let mut fields = vec!["x: i32".to_string()];
                    for p in &self.params {
                        match p {
                            P::Lt(l) => fields.push(format!("r{}: &{} i32", &l[1..], l)),
                            P::Ty { .. } => fields.push(if refs { "#[map_ref(~.clone())] t: T".to_string() } else { "t: T".to_string() }),
                            P::Const { .. } => fields.push("arr: [u8; N]".to_string()),
                        }
                    }
                    let _ = writeln!(o, "struct S{}{} {{ {} }}", self.decl(), w, fields.join(", "));
                } else {
                    let _ = writeln!(o, "struct S {{ x: i32, t: i32 }}");
                }
            }
            2 => {
                // README "Lifetimes", mirror scenario: the lifetime exists only in the counterpart's path
                let _ = writeln!(o, "#[ref_into({})]\n#[ref_try_into({}, Er)]", self.cp_path(false), self.cp_path(true));
                if self.lt_form == 0 {
                    let _ = writeln!(o, "struct S {{ x: i32, #[into(~.as_str())] s: String }}");
                } else if self.lt_form == 3 {
                    // X<'static>: nothing borrowed from the source can go there
                    let _ = writeln!(o, "struct S {{ x: i32, #[into({{ \"fixed\" }})] s: String }}");
                } else {
                    let _ = writeln!(o, "struct S {{ x: i32, #[into(~.as_str())] s: String, #[into(~.as_str())] s2: String }}");
                }
            }
            4 => {
                let _ = writeln!(o, "#[from_ref(X)]\n#[try_from_ref(Xf, Er)]");
                let fields: Vec<String> = self.params.iter().map(|p| match p { P::Lt(l) => format!("#[from(~.as_str())] s{}: &{} str", &l[1..], l), _ => String::new() }).collect();
                let _ = writeln!(o, "struct S{} {{ x: i32, {} }}", self.decl(), fields.join(", "));
            }
            _ => {
                let _ = writeln!(o, "#[ref_into({})]\n#[ref_try_into({}, Er)]", self.cp_path(false), self.cp_path(true));
                if !self.params.iter().any(|p| matches!(p, P::Ty { bound: true, .. })) && !self.own_where {
                    o.push_str("#[where_clause(T: Clone)]\n");
                }
                let w = if self.own_where { " where T: Clone" } else { "" };
                let mut fields = vec!["x: i32".to_string(), "#[into(~.as_str())] s: String".to_string()];
                for p in &self.params {
                    match p {
                        P::Lt(l) => fields.push(format!("r{}: &{} i32", &l[1..], l)),
                        P::Ty { .. } => fields.push("#[into(~.clone())] t: T".to_string()),
                        P::Const { .. } => fields.push("arr: [u8; N]".to_string()),
                    }
                }
                let _ = writeln!(o, "struct S{}{} {{ {} }}", self.decl(), w, fields.join(", "));
            }
        }
        o
    }
    pub fn render_module(&self) -> String {
        let mut o = String::from("#![allow(unused, non_camel_case_types, clippy::all)]\nuse crate::common::*;\nuse o2o::traits::*;\n");
        let d = "#[derive(Clone, Debug, PartialEq)]";
        match self.mode {
            0 => {
                for n in ["X", "Xf"] {
                    let _ = writeln!(o, "{d} pub struct {}{} {{ {} }}", n, self.decl_plain(), self.fields(true));
                }
            }
            1 => {
                for n in ["X", "Xf"] {
                    let _ = writeln!(o, "{d} pub struct {}<T> {{ pub x: i32, pub t: T }}", n);
                }
            }
            2 => {
                for n in ["X", "Xf"] {
                    if self.lt_form == 0 || self.lt_form == 3 {
                        let _ = writeln!(o, "{d} pub struct {}<'x> {{ pub x: i32, pub s: &'x str }}", n);
                    } else {
                        let _ = writeln!(o, "{d} pub struct {}<'x, 'y> {{ pub x: i32, pub s: &'x str, pub s2: &'y str }}", n);
                    }
                }
            }
            4 => {
                for n in ["X", "Xf"] {
                    let _ = writeln!(o, "{d} pub struct {} {{ pub x: i32, {} }}", n, self.params.iter().map(|p| match p { P::Lt(l) => format!("pub s{}: String", &l[1..]), _ => String::new() }).collect::<Vec<_>>().join(", "));
                }
            }
            _ => {
                for n in ["X", "Xf"] {
                    let _ = writeln!(o, "{d} pub struct {}<'x, {}> {{ {}, pub s: &'x str }}", n, self.decl_plain().trim_start_matches('<').trim_end_matches('>'), self.fields(true));
                }
            }
        }
        let _ = writeln!(o, "{d}\n#[derive(o2o::o2o)]\n{}", self.item_text().replace("struct S", "pub struct S"));
        let _ = writeln!(o, "pub fn run(r: &mut Rec) {{");
        // stack-local (non-'static) data borrowed through the conversions
        let _ = writeln!(o, "  let la = 11; let lb = 12; let owned_string = String::from(\"local\");");
        match self.mode {
            0 => {
                let mut vals = vec!["x: 1".to_string()];
                for p in &self.params {
                    match p {
                        P::Lt(l) => vals.push(format!("r{}: &l{}", &l[1..], &l[1..])),
                        P::Ty { .. } => vals.push("t: 7i32".to_string()),
                        P::Const { .. } => vals.push("arr: [3u8; 2]".to_string()),
                    }
                }
                let body = vals.join(", ");
                let refs = !self.has_ty() || self.t_clone();
                for (n, fallible) in [("X", false), ("Xf", true)] {
                    let _ = writeln!(o, "  {{ let x = {n} {{ {body} }}; let exp = S {{ {body} }};");
                    if fallible {
                        let _ = writeln!(o, "    r.eq(\"try_from_owned\", &S::try_from(x.clone()), &Ok::<_, Er>(exp.clone()));");
                        if refs {
                            let _ = writeln!(o, "    r.eq(\"try_from_ref\", &S::try_from(&x), &Ok::<_, Er>(exp.clone()));");
                        }
                        let _ = writeln!(o, "    let y: Result<{n}<{}>, Er> = exp.clone().try_into(); r.eq(\"try_owned_into\", &y, &Ok(x.clone()));", self.infer_args());
                        if refs {
                            let _ = writeln!(o, "    let y: Result<{n}<{}>, Er> = (&exp).try_into(); r.eq(\"try_ref_into\", &y, &Ok(x.clone()));", self.infer_args());
                        }
                        let _ = writeln!(o, "    let mut z = x.clone(); z.x = 900; let res = exp.clone().try_into_existing(&mut z); r.eq(\"try_owned_into_existing\", &res.map(|_| z), &Ok::<_, Er>(x.clone()));");
                        if refs {
                            let _ = writeln!(o, "    let mut z = x.clone(); z.x = 900; let res = (&exp).try_into_existing(&mut z); r.eq(\"try_ref_into_existing\", &res.map(|_| z), &Ok::<_, Er>(x.clone()));");
                        }
                    } else {
                        let _ = writeln!(o, "    r.eq(\"from_owned\", &S::from(x.clone()), &exp);");
                        if refs {
                            let _ = writeln!(o, "    r.eq(\"from_ref\", &S::from(&x), &exp);");
                        }
                        let _ = writeln!(o, "    let y: {n}<{}> = exp.clone().into(); r.eq(\"owned_into\", &y, &x);", self.infer_args());
                        if refs {
                            let _ = writeln!(o, "    let y: {n}<{}> = (&exp).into(); r.eq(\"ref_into\", &y, &x);", self.infer_args());
                        }
                        let _ = writeln!(o, "    let mut z = x.clone(); z.x = 900; exp.clone().into_existing(&mut z); r.eq(\"owned_into_existing\", &z, &x);");
                        if refs {
                            let _ = writeln!(o, "    let mut z = x.clone(); z.x = 900; (&exp).into_existing(&mut z); r.eq(\"ref_into_existing\", &z, &x);");
                        }
                    }
                    let _ = writeln!(o, "  }}");
                }
            }
            1 => {
                for (n, fallible) in [("X", false), ("Xf", true)] {
                    let _ = writeln!(o, "  {{ let x = {n}::<i32> {{ x: 1, t: 7 }}; let exp = S {{ x: 1, t: 7 }};");
                    if fallible {
                        let _ = writeln!(o, "    r.eq(\"try_from_owned\", &S::try_from(x.clone()), &Ok::<_, Er>(exp.clone())); r.eq(\"try_from_ref\", &S::try_from(&x), &Ok::<_, Er>(exp.clone()));");
                        let _ = writeln!(o, "    let y: Result<{n}<i32>, Er> = exp.clone().try_into(); r.eq(\"try_owned_into\", &y, &Ok(x.clone())); let y: Result<{n}<i32>, Er> = (&exp).try_into(); r.eq(\"try_ref_into\", &y, &Ok(x.clone()));");
                        let _ = writeln!(o, "    let mut z = x.clone(); z.x = 900; let res = (&exp).try_into_existing(&mut z); r.eq(\"try_ref_into_existing\", &res.map(|_| z), &Ok::<_, Er>(x.clone()));");
                    } else {
                        let _ = writeln!(o, "    r.eq(\"from_owned\", &S::from(x.clone()), &exp); r.eq(\"from_ref\", &S::from(&x), &exp);");
                        let _ = writeln!(o, "    let y: {n}<i32> = exp.clone().into(); r.eq(\"owned_into\", &y, &x); let y: {n}<i32> = (&exp).into(); r.eq(\"ref_into\", &y, &x);");
                        let _ = writeln!(o, "    let mut z = x.clone(); z.x = 900; (&exp).into_existing(&mut z); r.eq(\"ref_into_existing\", &z, &x);");
                    }
                    let _ = writeln!(o, "  }}");
                }
            }
            3 => {
                let mut vals = vec!["x: 1".to_string()];
                for p in &self.params {
                    match p {
                        P::Lt(l) => vals.push(format!("r{}: &l{}", &l[1..], &l[1..])),
                        P::Ty { .. } => vals.push("t: 7i32".to_string()),
                        P::Const { .. } => vals.push("arr: [3u8; 2]".to_string()),
                    }
                }
                let body = vals.join(", ");
                let _ = writeln!(o, "  {{ let s = S {{ {body}, s: owned_string.clone() }}; let y: X<'_, {a}> = (&s).into(); r.eq(\"ref_into\", &y, &X {{ {body}, s: \"local\" }}); let y2: Result<Xf<'_, {a}>, Er> = (&s).try_into(); r.eq(\"try_ref_into\", &y2, &Ok(Xf {{ {body}, s: \"local\" }})); }}", a = self.infer_args());
            }
            4 => {
                let xs: Vec<String> = self.params.iter().map(|p| match p { P::Lt(l) => format!("s{}: format!(\"loc{}\")", &l[1..], &l[1..]), _ => String::new() }).collect();
                let ss: Vec<String> = self.params.iter().map(|p| match p { P::Lt(l) => format!("s{}: \"loc{}\"", &l[1..], &l[1..]), _ => String::new() }).collect();
                let _ = writeln!(o, "  {{ let x = X {{ x: 1, {} }}; let s = S::from(&x); r.eq(\"from_ref\", &s, &S {{ x: 1, {} }}); let xf = Xf {{ x: 1, {} }}; let s2 = S::try_from(&xf); r.eq(\"try_from_ref\", &s2, &Ok::<_, Er>(S {{ x: 1, {} }})); }}", xs.join(", "), ss.join(", "), xs.join(", "), ss.join(", "));
            }
            _ if self.lt_form == 3 => {
                let _ = writeln!(o, "  {{ let s = S {{ x: 1, s: owned_string.clone() }}; let y: X<'static> = (&s).into(); r.eq(\"ref_into\", &y, &X {{ x: 1, s: \"fixed\" }}); let y2: Result<Xf<'static>, Er> = (&s).try_into(); r.eq(\"try_ref_into\", &y2, &Ok(Xf {{ x: 1, s: \"fixed\" }})); }}");
            }
            _ if self.lt_form > 0 => {
                let _ = writeln!(o, "  {{ let s = S {{ x: 1, s: owned_string.clone(), s2: owned_string.clone() }}; let y: X = (&s).into(); r.eq(\"ref_into\", &y, &X {{ x: 1, s: \"local\", s2: \"local\" }}); let y2: Result<Xf, Er> = (&s).try_into(); r.eq(\"try_ref_into\", &y2, &Ok(Xf {{ x: 1, s: \"local\", s2: \"local\" }})); }}");
            }
            _ => {
                let _ = writeln!(o, "  {{ let s = S {{ x: 1, s: owned_string.clone() }}; let y: X = (&s).into(); r.eq(\"ref_into\", &y, &X {{ x: 1, s: \"local\" }}); let y2: Result<Xf, Er> = (&s).try_into(); r.eq(\"try_ref_into\", &y2, &Ok(Xf {{ x: 1, s: \"local\" }})); }}");
            }
        }
        o.push_str("}\n");
        o
    }
    /// type arguments for annotations in the test body ('_ for lifetimes)
    fn infer_args(&self) -> String {
        self.params.iter().map(|p| match p { P::Lt(_) => "'_".to_string(), P::Ty { .. } => "i32".to_string(), P::Const { .. } => "2".to_string() }).collect::<Vec<_>>().join(", ")
    }
}

/// a generic deriving type with a bare `#[parent]` member (seed C11-11): the Into impls build the counterpart in post-init
/// form (`let mut obj: X = Default::default(); ..; self.p.into_existing(&mut obj)`), where the COUNTERPART's own
/// arguments - none, or other ones than the deriving type's - have to be written
pub fn bare_parent_modules() -> Vec<(String, Vec<String>, Vec<String>)> {
    let mut v = vec![];
    let d = "#[derive(Clone, Debug, PartialEq, Default)]";
    // (declaration, argument list for the test, S-only members, their values)
    let shapes: [(&str, &str, &str, &str); 5] = [
        ("<'a>", "", "#[ghost] r: &'a i32", "r: &la"),
        ("<T>", "::<i64>", "#[ghost] t: T", "t: 7i64"),
        ("<const N: usize>", "::<2>", "#[ghost] arr: [u8; N]", "arr: [3u8; 2]"),
        ("<'a, T: Clone>", "::<i64>", "#[ghost] r: &'a i32, #[ghost] t: T", "r: &la, t: 7i64"),
        ("<'a, 'b, T, const N: usize>", "::<i64, 2>", "#[ghost] r: &'a i32, #[ghost] r2: &'b i32, #[ghost] t: T, #[ghost] arr: [u8; N]", "r: &la, r2: &lb, t: 7i64, arr: [3u8; 2]"),
    ];
    for (decl, _targs, members, vals) in shapes {
        for cp_generic in [false, true] {
            // the counterpart is not generic, or has one (other) type argument of its own
            let (xd, xa, xf) = if cp_generic { ("<U>", "<u8>", ", pub u: U") } else { ("", "", "") };
            let mut m = String::from("#![allow(unused, non_camel_case_types, clippy::all)]\nuse crate::common::*;\nuse o2o::traits::*;\n");
            m.push_str(&format!("{d} pub struct X{xd} {{ pub x: i32, pub w: i32{xf} }}\n{d} pub struct Xf{xd} {{ pub x: i32, pub w: i32{xf} }}\n"));
            m.push_str(&format!("{d}\n#[derive(o2o::o2o)]\n#[into_existing(X{xa})]\n#[try_into_existing(Xf{xa}, Er)]\npub struct P {{ pub w: i32 }}\n"));
            let item = format!("#[into(X{xa})]\n#[into_existing(X{xa})]\n#[try_into(Xf{xa}, Er)]\n#[try_into_existing(Xf{xa}, Er)]\npub struct S{decl} {{ x: i32, {members}, #[parent] p: P }}\n");
            m.push_str(&format!("#[derive(Clone)]\n#[derive(o2o::o2o)]\n{}", item));
            let u = if cp_generic { ", u: 0" } else { "" };
            m.push_str("pub fn run(r: &mut Rec) {\n  let la = 11; let lb = 12;\n");
            m.push_str(&format!("  let s = S {{ x: 1, {vals}, p: P {{ w: 9 }} }};\n"));
            m.push_str(&format!("  {{ let y: X{xa} = s.clone().into(); r.eq(\"owned_into\", &y, &X {{ x: 1, w: 9{u} }}); let y: X{xa} = (&s).into(); r.eq(\"ref_into\", &y, &X {{ x: 1, w: 9{u} }}); }}\n"));
            m.push_str(&format!("  {{ let y: Result<Xf{xa}, Er> = s.clone().try_into(); r.eq(\"try_owned_into\", &y, &Ok(Xf {{ x: 1, w: 9{u} }})); let y: Result<Xf{xa}, Er> = (&s).try_into(); r.eq(\"try_ref_into\", &y, &Ok(Xf {{ x: 1, w: 9{u} }})); }}\n"));
            m.push_str(&format!("  {{ let mut z = X {{ x: 900, w: 901{u} }}; s.clone().into_existing(&mut z); r.eq(\"owned_into_existing\", &z, &X {{ x: 1, w: 9{u} }}); let mut z = X {{ x: 900, w: 901{u} }}; (&s).into_existing(&mut z); r.eq(\"ref_into_existing\", &z, &X {{ x: 1, w: 9{u} }}); }}\n"));
            m.push_str(&format!("  {{ let mut z = Xf {{ x: 900, w: 901{u} }}; let res = s.clone().try_into_existing(&mut z); r.eq(\"try_owned_into_existing\", &res.map(|_| z), &Ok::<_, Er>(Xf {{ x: 1, w: 9{u} }})); let mut z = Xf {{ x: 900, w: 901{u} }}; let res = (&s).try_into_existing(&mut z); r.eq(\"try_ref_into_existing\", &res.map(|_| z), &Ok::<_, Er>(Xf {{ x: 1, w: 9{u} }})); }}\n"));
            m.push_str("}\n");
            v.push((m, vec![item], vec!["mode=bare-parent".to_string(), format!("decl={}", decl), format!("counterpart-generic={}", cp_generic), "declaration-form-differs-from-argument-form".to_string()]));
        }
    }
    v
}

/// generic ENUM hosts (the generator above derives on structs): lifetime, type and const parameters in five lists x
/// bound on the declaration or a #[where_clause]; map + try_map, owned and by reference
pub fn enum_generic_modules() -> Vec<(String, Vec<String>, Vec<String>)> {
    let mut v = vec![];
    let d = "#[derive(Clone, Debug, PartialEq)]";
    // (declaration, plain declaration, arguments, has T, T bounded on the declaration)
    let shapes: [(&str, &str, &str, bool, bool); 6] = [
        ("<'a>", "<'a>", "<'a>", false, false),
        ("<T>", "<T>", "<T>", true, false),
        ("<T: Clone>", "<T>", "<T>", true, true),
        ("<const N: usize>", "<const N: usize>", "<N>", false, false),
        ("<'a, T: Clone>", "<'a, T>", "<'a, T>", true, true),
        ("<'a, T, const N: usize>", "<'a, T, const N: usize>", "<'a, T, N>", true, false),
    ];
    for (decl, plain, args, has_t, bounded) in shapes {
        let lt = decl.contains("'a");
        let cn = decl.contains("const N");
        let mut xf = vec!["x: i32".to_string()];
        let mut sf = vec!["#[map_ref(*~)] x: i32".to_string()];
        let mut vals = vec!["x: 1".to_string()];
        if lt {
            xf.push("r: &'a i32".into());
            sf.push("#[map_ref(*~)] r: &'a i32".into());
            vals.push("r: &la".into());
        }
        if has_t {
            xf.push("t: T".into());
            sf.push("#[map_ref(~.clone())] t: T".into());
            vals.push("t: 7i64".into());
        }
        if cn {
            xf.push("arr: [u8; N]".into());
            sf.push("#[map_ref(*~)] arr: [u8; N]".into());
            vals.push("arr: [3u8; 2]".into());
        }
        let mut m = String::from("#![allow(unused, non_camel_case_types, clippy::all)]\nuse crate::common::*;\n");
        for n in ["X", "Xf"] {
            m.push_str(&format!("{d} pub enum {n}{plain} {{ A {{ {} }}, B }}\n", xf.join(", ")));
        }
        let wc = if has_t && !bounded { "#[where_clause(T: Clone)]\n" } else { "" };
        let item = format!("#[map(X{args})]\n#[try_map(Xf{args}, Er)]\n{wc}pub enum S{decl} {{ A {{ {} }}, B }}\n", sf.join(", "));
        m.push_str(&format!("{d}\n#[derive(o2o::o2o)]\n{}", item));
        let body = vals.join(", ");
        m.push_str("pub fn run(r: &mut Rec) {\n  let la = 11;\n");
        m.push_str(&format!("  {{ let x = X::A {{ {body} }}; let s = S::A {{ {body} }};\n"));
        m.push_str("    r.eq(\"from_owned\", &S::from(x.clone()), &s); r.eq(\"from_ref\", &S::from(&x), &s);\n");
        // (the result types are inferred from the expected values)
        m.push_str("    let y = s.clone().into(); r.eq(\"owned_into\", &y, &x); let y = (&s).into(); r.eq(\"ref_into\", &y, &x); }\n");
        m.push_str(&format!("  {{ let x = Xf::A {{ {body} }}; let s = S::A {{ {body} }};\n"));
        m.push_str("    r.eq(\"try_from_owned\", &S::try_from(x.clone()), &Ok::<_, Er>(s.clone())); r.eq(\"try_from_ref\", &S::try_from(&x), &Ok::<_, Er>(s.clone()));\n");
        m.push_str("    let y = s.clone().try_into(); r.eq(\"try_owned_into\", &y, &Ok::<_, Er>(x.clone())); let y = (&s).try_into(); r.eq(\"try_ref_into\", &y, &Ok::<_, Er>(x.clone())); }\n");
        m.push_str("}\n");
        v.push((m, vec![item], vec!["mode=enum-host".to_string(), format!("decl={}", decl), "declaration-form-differs-from-argument-form".to_string()]));
    }
    v
}

pub fn run(tier: &str) -> i32 {
    let rep = Report::new("C11", tier, "exploration");
    rep.set_rule("every generic parameter list of the deriving type built from {'a, 'b, T, T: Clone, T = i32, T: Clone = i32, const N: usize, const N: usize = 2} with <= 4 parameters in every order Rust allows x own `where` clause x counterpart path {mirror X<'a, T, N>, concrete arguments X<i32> on a non-generic deriving type, lifetime only on the counterpart X<'x> (README 'Lifetimes')} with and without turbofish x #[where_clause] {none, default, dedicated per counterpart} x all 12 conversion kinds (by-reference kinds whenever T can be cloned): matching type definitions are generated next to the derive, plus `enum-generics` (generic enum hosts, 6 parameter lists, map + try_map) and `bare-parent`: generic deriving types with a bare #[parent] member (the Into impls name the counterpart - not generic, or with arguments of its own - in a let binding): RUSTC must accept every impl, and a test body borrows stack-local (non-'static) data through every by-reference conversion and compares the results. states = distinct test modules; non-trivial = parameter lists whose declaration form differs from their argument form (bounds, defaults, const)");
    rep.assume("the oracle is rustc's type checker on the real macro output; leaves are i32 / &i32 / [u8; N] / T");
    let caps = Caps::from_env(if tier == "quick" { 200.0 } else { 1200.0 });
    let items: Mutex<Vec<BItem>> = Mutex::new(vec![]);
    let st = explore(gen, None, &caps, |ch, c| {
        items.lock().unwrap().push(BItem { space: "generics".into(), choices: ch.to_vec(), tags: c.tags.clone(), inputs: vec![c.item_text()], module: c.render_module(), nontrivial: c.tags.iter().any(|t| t.starts_with("declaration-form")) });
    });
    rep.add_stats("generics", "full", &st);
    eprintln!("  space generics: {} choice vectors, {} pruned", st.leaves, st.pruned);
    let bp = bare_parent_modules();
    let nb = bp.len() as u64;
    for (i, (module, inputs, tags)) in bp.into_iter().enumerate() {
        items.lock().unwrap().push(BItem { space: "bare-parent".into(), choices: vec![i as u32], tags, inputs, module, nontrivial: true });
    }
    rep.add_stats("bare-parent", "full (5 parameter lists x counterpart generic or not)", &crate::explore::ExploreStats { leaves: nb, transitions: nb, ..Default::default() });
    let eg = enum_generic_modules();
    let ne = eg.len() as u64;
    for (i, (module, inputs, tags)) in eg.into_iter().enumerate() {
        items.lock().unwrap().push(BItem { space: "enum-generics".into(), choices: vec![i as u32], tags, inputs, module, nontrivial: true });
    }
    rep.add_stats("enum-generics", "full (6 parameter lists)", &crate::explore::ExploreStats { leaves: ne, transitions: ne, ..Default::default() });
    if let Err(e) = run_items("C11", items.into_inner().unwrap(), &rep, BOpts { no_std: false, features: "", name: "c11".into(), keep: std::env::var("VERIF_KEEP").is_ok() }) {
        eprintln!("MACHINERY-ERROR: {}", e);
        return 2;
    }
    rep.finish()
}

pub fn replay(f: &Failure) -> i32 {
    let mut obs = vec![];
    for round in 0..2 {
        let item = if f.space == "bare-parent" || f.space == "enum-generics" {
            match (if f.space == "bare-parent" { bare_parent_modules() } else { enum_generic_modules() }).into_iter().enumerate().find(|(i, _)| vec![*i as u32] == f.choices) {
                Some((_, (module, inputs, tags))) => BItem { space: f.space.clone(), choices: f.choices.clone(), tags, inputs, module, nontrivial: true },
                None => {
                    eprintln!("MACHINERY-ERROR: cannot re-render {:?}", f.choices);
                    return 2;
                }
            }
        } else {
            let (c, full) = replay_one(gen, &f.choices);
            match c {
                Some(c) if full == f.choices && c.item_text() == f.input => BItem { space: "generics".into(), choices: full, tags: c.tags.clone(), inputs: vec![c.item_text()], module: c.render_module(), nontrivial: true },
                _ => {
                    eprintln!("MACHINERY-ERROR: cannot re-render {:?}", f.choices);
                    return 2;
                }
            }
        };
        let rep = Report::new("C11", "quick", "exploration");
        if let Err(e) = run_items("C11", vec![item], &rep, BOpts { no_std: false, features: "", name: format!("c11-replay{}", round), keep: false }) {
            eprintln!("MACHINERY-ERROR: {}", e);
            return 2;
        }
        obs.push(rep.failures.lock().unwrap().iter().map(|x| (x.kind.clone(), x.detail.clone())).collect::<Vec<_>>());
    }
    if obs[0] != obs[1] {
        eprintln!("MACHINERY-ERROR: non-deterministic replay");
        return 2;
    }
    if obs[0].is_empty() {
        println!("replay: no failure on this tree");
        return 0;
    }
    for (k, d) in &obs[0] {
        println!("REPLAYED property=C11 kind={} detail={}", k, d);
    }
    println!("input:\n{}", f.input);
    1
}
