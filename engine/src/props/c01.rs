//! C01 - struct conversions deliver every value to the designated field (engine B: real macro + rustc + execution).

use super::bcommon::{run_items, BItem};
use crate::explore::{explore, Caps};
use crate::report::{Failure, Report};
use crate::rt::BOpts;
use crate::sem_struct::{gen, Flavour, Opts, MENU_FULL, MENU_SMALL};
use std::sync::Mutex;

pub fn opts(tier: &str) -> Vec<(String, Opts, Option<usize>)> {
    if tier == "quick" {
        vec![
            ("struct(n<=2,full-menu)".into(), Opts { max_n: 2, menu: MENU_FULL, max_ghosts: 1, allow_update: true, permute_idx: true }, None),
            ("struct(n<=3,small-menu)".into(), Opts { max_n: 3, menu: MENU_SMALL, max_ghosts: 1, allow_update: false, permute_idx: true }, Some(4)),
        ]
    } else {
        vec![
            ("struct(n<=3,full-menu)".into(), Opts { max_n: 3, menu: MENU_FULL, max_ghosts: 2, allow_update: true, permute_idx: true }, None),
            ("struct(n<=4,small-menu)".into(), Opts { max_n: 4, menu: MENU_SMALL, max_ghosts: 1, allow_update: false, permute_idx: true }, Some(5)),
        ]
    }
}

pub fn collect(tier: &str, caps: &Caps, rep: &Report) -> Vec<BItem> {
    let items: Mutex<Vec<BItem>> = Mutex::new(vec![]);
    for (name, o, bound) in opts(tier) {
        let st = explore(
            |ctx| gen(ctx, &o),
            bound,
            caps,
            |choices, c| {
                let item = c.item("S", Flavour::Both);
                let mut inputs = vec![];
                if c.form == crate::sem_struct::CpForm::BareTuple {
                    inputs.push(c.item("S", Flavour::Infallible).render());
                    let mut sf = c.item("S", Flavour::Fallible);
                    sf.name = "Sf".into();
                    inputs.push(sf.render());
                } else {
                    inputs.push(item.render());
                }
                items.lock().unwrap().push(BItem { space: name.clone(), choices: choices.to_vec(), tags: c.tags.clone(), inputs, module: c.render_module("x"), nontrivial: c.nontrivial() });
            },
        );
        rep.add_stats(&name, &bound.map(|b| format!("dev({})", b)).unwrap_or("full".into()), &st);
        eprintln!("  space {}: {} choice vectors, {} pruned", name, st.leaves, st.pruned);
    }
    items.into_inner().unwrap()
}

pub fn run(tier: &str) -> i32 {
    let rep = Report::new("C01", tier, "model_checking");
    rep.set_rule("every struct case of the bounded grammar {deriving shape named|tuple|unit} x {counterpart form: same, same+index renames, as {}, as (), bare tuple, as Unit} x {per-member menu: none, rename, ~expr, @expr pair, rename+expr, as_type, as_type+rename, ghost{default}, ghost+..update, ghost_owned, ghost_ref} x {0..k struct-level ghosts entries, trailing|leading} x {..update} x {every permutation of index renames} x {counterpart field order} is rendered (semantics first), compiled through the real #[derive(o2o::o2o)] by rustc and executed: all 12 conversion kinds x 2 value assignments, every destination leaf compared with the model's expected literal. states = distinct rendered test modules; non-trivial = any member/slot that is not a plain same-name copy");
    rep.assume("leaf types are i32 (i64 for as_type); member count <= 3 (4 with the small menu); the reference model M_sem is transcribed from README (Inline expressions, Different member name, Assymetric fields, Tuple structs, Tuples, Type hints)");
    rep.assume("fallible flavours run against a layout-identical twin counterpart Tf (From<T> and TryFrom<T> for one type overlap)");
    let caps = Caps::from_env(if tier == "quick" { 200.0 } else { 1500.0 });
    let items = collect(tier, &caps, &rep);
    if let Err(e) = run_items("C01", items, &rep, BOpts { no_std: false, features: "", name: "c01".into(), keep: std::env::var("VERIF_KEEP").is_ok() }) {
        eprintln!("MACHINERY-ERROR: {}", e);
        return 2;
    }
    rep.finish()
}

pub fn replay(f: &Failure) -> i32 {
    // re-render the one case from its choice vector and run it alone through rustc, twice
    let tiered = [opts("quick"), opts("thorough")].concat_named();
    let (_, o, _) = match tiered.into_iter().find(|(n, _, _)| *n == f.space) {
        Some(x) => x,
        None => {
            eprintln!("MACHINERY-ERROR: unknown space {}", f.space);
            return 2;
        }
    };
    let mut obs = vec![];
    for round in 0..2 {
        let (case, full) = crate::explore::replay_one(|ctx| gen(ctx, &o), &f.choices);
        if full != f.choices {
            eprintln!("MACHINERY-ERROR: replay divergence");
            return 2;
        }
        let c = match case {
            Some(c) => c,
            None => {
                eprintln!("MACHINERY-ERROR: replayed vector is pruned");
                return 2;
            }
        };
        let rep = Report::new("C01", "quick", "model_checking");
        let mut inputs = vec![];
        if c.form == crate::sem_struct::CpForm::BareTuple {
            inputs.push(c.item("S", Flavour::Infallible).render());
            let mut sf = c.item("S", Flavour::Fallible);
            sf.name = "Sf".into();
            inputs.push(sf.render());
        } else {
            inputs.push(c.item("S", Flavour::Both).render());
        }
        if inputs.join("\n") != f.input {
            eprintln!("MACHINERY-ERROR: replay rendered a different input than recorded");
            return 2;
        }
        let item = BItem { space: f.space.clone(), choices: full, tags: c.tags.clone(), inputs, module: c.render_module("x"), nontrivial: true };
        if let Err(e) = run_items("C01", vec![item], &rep, BOpts { no_std: false, features: "", name: format!("c01-replay{}", round), keep: false }) {
            eprintln!("MACHINERY-ERROR: {}", e);
            return 2;
        }
        let fs: Vec<(String, String)> = rep.failures.lock().unwrap().iter().map(|x| (x.kind.clone(), x.detail.clone())).collect();
        obs.push(fs);
    }
    if obs[0] != obs[1] {
        eprintln!("MACHINERY-ERROR: non-deterministic replay");
        return 2;
    }
    if obs[0].is_empty() {
        println!("replay: no failure on this tree");
        return 0;
    }
    for (k, d) in &obs[0] {
        println!("REPLAYED property=C01 kind={} detail={}", k, d);
    }
    println!("input:\n{}", f.input);
    1
}

trait ConcatNamed {
    fn concat_named(self) -> Vec<(String, Opts, Option<usize>)>;
}
impl ConcatNamed for [Vec<(String, Opts, Option<usize>)>; 2] {
    fn concat_named(self) -> Vec<(String, Opts, Option<usize>)> {
        let mut v = vec![];
        for x in self {
            v.extend(x);
        }
        v
    }
}
