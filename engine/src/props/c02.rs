//! C02 - enum conversions map each variant and payload field to its designated target (engine B).

use super::bcommon::{run_items, BItem};
use crate::explore::{explore, Caps};
use crate::report::{Failure, Report};
use crate::rt::BOpts;
use crate::sem_enum::{gen, EOpts};
use std::sync::Mutex;

pub fn spaces(tier: &str) -> Vec<(String, EOpts, Option<usize>)> {
    if tier == "quick" {
        vec![("enum(v<=2,f<=2)".into(), EOpts { max_variants: 2, max_fields: 2, full_menu: true }, Some(5))]
    } else {
        vec![("enum(v<=2,f<=2)".into(), EOpts { max_variants: 2, max_fields: 2, full_menu: true }, Some(7)), ("enum(v<=3,f<=2)".into(), EOpts { max_variants: 3, max_fields: 2, full_menu: true }, Some(5))]
    }
}

/// payload bindings are part of the contract (tuple payloads are bound as f0, f1, .., named ones by field name): a From
/// expression may read ANOTHER payload field of the counterpart variant through its binding - also a counterpart-only
/// field that a variant-level #[ghosts] fills in the other direction (seed C02-11)
pub fn binding_modules() -> Vec<(String, Vec<String>, Vec<String>)> {
    let mut v = vec![];
    let d = "#[derive(Clone, Debug, PartialEq)]";
    for sibling_is_ghost in [true, false] {
        for owned_only in [false, true] {
            let mut m = String::from("#![allow(unused, non_camel_case_types, clippy::all)]\nuse crate::common::*;\n");
            for t in ["T", "Tf"] {
                m.push_str(&format!("{d} pub enum {t} {{ A {{ x: i32, g: i32 }}, B(i32, i32), Z }}\n"));
            }
            // the sibling is either counterpart-only (variant-level ghosts) or a second mapped payload field
            let (ga, gb, sa, sb) = if sibling_is_ghost { ("#[ghosts(g: { 7 })] ", "#[ghosts(1: { 7 })] ", "", "") } else { ("", "", ", g: i32", ", i32") };
            let (kt, ktf) = if owned_only { ("#[map_owned(T)]", "#[try_map_owned(Tf, Er)]") } else { ("#[map(T)]", "#[try_map(Tf, Er)]") };
            let fx = if owned_only { "#[from_owned(~ + g)]".to_string() } else { "#[from_owned(~ + g)] #[from_ref(*~ + *g)]".to_string() };
            let f0 = if owned_only { "#[from_owned(~ + f1)]".to_string() } else { "#[from_owned(~ + f1)] #[from_ref(*~ + *f1)]".to_string() };
            let by_ref = |e: &str| if owned_only { String::new() } else { e.to_string() };
            let item = format!("{kt}\n{ktf}\npub enum S {{ {ga}A {{ {fx} {} x: i32{sa} }}, {gb}B({f0} {} i32{sb}), Z }}\n", by_ref("#[ref_into(*~)]"), by_ref("#[ref_into(*~)]")).replace("g: i32 }", &format!("{} g: i32 }}", by_ref("#[map_ref(*~)]"))).replace(", i32)", &format!(", {} i32)", by_ref("#[map_ref(*~)]")));
            m.push_str(&format!("{d}\n#[derive(o2o::o2o)]\n{}", item));
            m.push_str("pub fn run(r: &mut Rec) {\n");
            let (sa_v, sb_v) = if sibling_is_ghost { ("S::A { x: 13 }", "S::B(24)") } else { ("S::A { x: 13, g: 3 }", "S::B(24, 4)") };
            for (tn, fallible) in [("T", false), ("Tf", true)] {
                let w = |e: &str| if fallible { format!("Ok::<_, Er>({})", e) } else { e.to_string() };
                let (fo, fr) = if fallible { (format!("<S as TryFrom<{tn}>>::try_from"), format!("<S as TryFrom<&{tn}>>::try_from")) } else { (format!("<S as From<{tn}>>::from"), format!("<S as From<&{tn}>>::from")) };
                let l = if fallible { "try_" } else { "" };
                m.push_str(&format!("  {{ let t = {tn}::A {{ x: 10, g: 3 }}; r.eq(\"{l}from_owned/A\", &{fo}(t.clone()), &{}); {} }}\n", w(sa_v), by_ref(&format!("r.eq(\"{l}from_ref/A\", &{fr}(&t), &{});", w(sa_v)))));
                m.push_str(&format!("  {{ let t = {tn}::B(20, 4); r.eq(\"{l}from_owned/B\", &{fo}(t.clone()), &{}); {} }}\n", w(sb_v), by_ref(&format!("r.eq(\"{l}from_ref/B\", &{fr}(&t), &{});", w(sb_v)))));
            }
            m.push_str("}\n");
            v.push((m, vec![item], vec!["payload-binding-read".to_string(), format!("sibling={}", if sibling_is_ghost { "counterpart-only (variant ghosts)" } else { "mapped" }), format!("owned_only={}", owned_only)]));
        }
    }
    v
}

pub fn collect(tier: &str, caps: &Caps, rep: &Report) -> Vec<BItem> {
    let items: Mutex<Vec<BItem>> = Mutex::new(vec![]);
    for (name, o, bound) in spaces(tier) {
        let st = explore(
            |ctx| gen(ctx, &o),
            bound,
            caps,
            |choices, c| {
                items.lock().unwrap().push(BItem { space: name.clone(), choices: choices.to_vec(), tags: c.tags.clone(), inputs: vec![c.item("S", None).render()], module: c.render_module(), nontrivial: c.nontrivial() });
            },
        );
        rep.add_stats(&name, &bound.map(|b| format!("dev({})", b)).unwrap_or("full".into()), &st);
        eprintln!("  space {}: {} choice vectors, {} pruned", name, st.leaves, st.pruned);
    }
    let bm = binding_modules();
    let nb = bm.len() as u64;
    for (i, (module, inputs, tags)) in bm.into_iter().enumerate() {
        items.lock().unwrap().push(BItem { space: "payload-bindings".into(), choices: vec![i as u32], tags, inputs, module, nontrivial: true });
    }
    rep.add_stats("payload-bindings", "full (fixed layouts)", &crate::explore::ExploreStats { leaves: nb, transitions: nb, ..Default::default() });
    items.into_inner().unwrap()
}

pub fn run(tier: &str) -> i32 {
    let rep = Report::new("C02", tier, "model_checking");
    rep.set_rule("every enum case of the bounded grammar {1-3 variants (+ a sink variant) x shape unit|tuple|struct x variant menu: plain, rename, ghost with action, ghost without action (+ default case), type_hint flip (unit<->(), tuple<->{}, struct<->()), type_hint as Unit, variant-level ghosts, variant-level expressions x payload-field menu: plain, rename, ~expr, ghost with default x 0-3 enum-level ghosts (unit / V(..) / V{..} forms) x an uncovered counterpart variant (default case) x {owned kinds | all 8 From/Into kinds}} is rendered semantics-first, compiled through the real derive by rustc and executed: every variant of the source type with two payload assignments is converted and compared with the model's expected destination variant and payload; `payload-bindings`: From expressions that read a sibling payload field of the counterpart variant through its binding (f1 / field name), the sibling being mapped or counterpart-only (variant-level #[ghosts]). states = distinct test modules; non-trivial = any non-plain variant/field or enum-level ghost");
    rep.assume("payload leaves are i32; by-reference kinds use the documented `*~` form on every payload field; fallible flavours run against a layout-identical twin counterpart Tf");
    let caps = Caps::from_env(if tier == "quick" { 200.0 } else { 1500.0 });
    let items = collect(tier, &caps, &rep);
    if let Err(e) = run_items("C02", items, &rep, BOpts { no_std: false, features: "", name: "c02".into(), keep: std::env::var("VERIF_KEEP").is_ok() }) {
        eprintln!("MACHINERY-ERROR: {}", e);
        return 2;
    }
    rep.finish()
}

pub fn replay(f: &Failure) -> i32 {
    if f.space == "payload-bindings" {
        let item = match binding_modules().into_iter().enumerate().find(|(i, _)| vec![*i as u32] == f.choices) {
            Some((_, (module, inputs, tags))) => BItem { space: f.space.clone(), choices: f.choices.clone(), tags, inputs, module, nontrivial: true },
            None => {
                eprintln!("MACHINERY-ERROR: cannot re-render {:?}", f.choices);
                return 2;
            }
        };
        let rep = Report::new("C02", "quick", "model_checking");
        if let Err(e) = run_items("C02", vec![item], &rep, BOpts { no_std: false, features: "", name: "c02-replay0".into(), keep: false }) {
            eprintln!("MACHINERY-ERROR: {}", e);
            return 2;
        }
        let fl = rep.failures.lock().unwrap();
        if fl.is_empty() {
            println!("replay: no failure on this tree");
            return 0;
        }
        for x in fl.iter() {
            println!("REPLAYED property=C02 kind={} detail={}", x.kind, x.detail);
        }
        println!("input:\n{}", f.input);
        return 1;
    }
    for t in ["quick", "thorough"] {
        for (name, o, _) in spaces(t) {
            if name != f.space {
                continue;
            }
            let mut obs = vec![];
            for round in 0..2 {
                let (case, full) = crate::explore::replay_one(|ctx| gen(ctx, &o), &f.choices);
                let c = match case {
                    Some(c) if full == f.choices => c,
                    _ => {
                        eprintln!("MACHINERY-ERROR: replay divergence");
                        return 2;
                    }
                };
                let input = c.item("S", None).render();
                if input != f.input {
                    eprintln!("MACHINERY-ERROR: replay rendered a different input than recorded");
                    return 2;
                }
                let rep = Report::new("C02", "quick", "model_checking");
                let item = BItem { space: f.space.clone(), choices: full, tags: c.tags.clone(), inputs: vec![input], module: c.render_module(), nontrivial: true };
                if let Err(e) = run_items("C02", vec![item], &rep, BOpts { no_std: false, features: "", name: format!("c02-replay{}", round), keep: false }) {
                    eprintln!("MACHINERY-ERROR: {}", e);
                    return 2;
                }
                obs.push(rep.failures.lock().unwrap().iter().map(|x| (x.kind.clone(), x.detail.clone())).collect::<Vec<_>>());
            }
            if obs[0] != obs[1] {
                eprintln!("MACHINERY-ERROR: non-deterministic replay");
                return 2;
            }
            if obs[0].is_empty() {
                println!("replay: no failure on this tree");
                return 0;
            }
            for (k, d) in &obs[0] {
                println!("REPLAYED property=C02 kind={} detail={}", k, d);
            }
            println!("input:\n{}", f.input);
            return 1;
        }
    }
    eprintln!("MACHINERY-ERROR: unknown space {}", f.space);
    2
}
