//! C02 - enum conversions map each variant and payload field to its designated target (engine B).

use super::bcommon::{run_items, BItem};
use crate::explore::{explore, Caps};
use crate::report::{Failure, Report};
use crate::rt::BOpts;
use crate::sem_enum::{gen, EOpts};
use std::sync::Mutex;

pub fn spaces(tier: &str) -> Vec<(String, EOpts, Option<usize>)> {
    if tier == "quick" {
        vec![("enum(v<=2,f<=2)".into(), EOpts { max_variants: 2, max_fields: 2, full_menu: true }, Some(5))]
    } else {
        vec![("enum(v<=2,f<=2)".into(), EOpts { max_variants: 2, max_fields: 2, full_menu: true }, Some(7)), ("enum(v<=3,f<=2)".into(), EOpts { max_variants: 3, max_fields: 2, full_menu: true }, Some(5))]
    }
}

pub fn collect(tier: &str, caps: &Caps, rep: &Report) -> Vec<BItem> {
    let items: Mutex<Vec<BItem>> = Mutex::new(vec![]);
    for (name, o, bound) in spaces(tier) {
        let st = explore(
            |ctx| gen(ctx, &o),
            bound,
            caps,
            |choices, c| {
                items.lock().unwrap().push(BItem { space: name.clone(), choices: choices.to_vec(), tags: c.tags.clone(), inputs: vec![c.item("S", None).render()], module: c.render_module(), nontrivial: c.nontrivial() });
            },
        );
        rep.add_stats(&name, &bound.map(|b| format!("dev({})", b)).unwrap_or("full".into()), &st);
        eprintln!("  space {}: {} choice vectors, {} pruned", name, st.leaves, st.pruned);
    }
    items.into_inner().unwrap()
}

pub fn run(tier: &str) -> i32 {
    let rep = Report::new("C02", tier, "model_checking");
    rep.set_rule("every enum case of the bounded grammar {1-3 variants (+ a sink variant) x shape unit|tuple|struct x variant menu: plain, rename, ghost with action, ghost without action (+ default case), type_hint flip (unit<->(), tuple<->{}, struct<->()), type_hint as Unit, variant-level ghosts, variant-level expressions x payload-field menu: plain, rename, ~expr, ghost with default x 0-3 enum-level ghosts (unit / V(..) / V{..} forms) x an uncovered counterpart variant (default case) x {owned kinds | all 8 From/Into kinds}} is rendered semantics-first, compiled through the real derive by rustc and executed: every variant of the source type with two payload assignments is converted and compared with the model's expected destination variant and payload. states = distinct test modules; non-trivial = any non-plain variant/field or enum-level ghost");
    rep.assume("payload leaves are i32; by-reference kinds use the documented `*~` form on every payload field; fallible flavours run against a layout-identical twin counterpart Tf");
    let caps = Caps::from_env(if tier == "quick" { 200.0 } else { 1500.0 });
    let items = collect(tier, &caps, &rep);
    if let Err(e) = run_items("C02", items, &rep, BOpts { no_std: false, features: "", name: "c02".into(), keep: std::env::var("VERIF_KEEP").is_ok() }) {
        eprintln!("MACHINERY-ERROR: {}", e);
        return 2;
    }
    rep.finish()
}

pub fn replay(f: &Failure) -> i32 {
    for t in ["quick", "thorough"] {
        for (name, o, _) in spaces(t) {
            if name != f.space {
                continue;
            }
            let mut obs = vec![];
            for round in 0..2 {
                let (case, full) = crate::explore::replay_one(|ctx| gen(ctx, &o), &f.choices);
                let c = match case {
                    Some(c) if full == f.choices => c,
                    _ => {
                        eprintln!("MACHINERY-ERROR: replay divergence");
                        return 2;
                    }
                };
                let input = c.item("S", None).render();
                if input != f.input {
                    eprintln!("MACHINERY-ERROR: replay rendered a different input than recorded");
                    return 2;
                }
                let rep = Report::new("C02", "quick", "model_checking");
                let item = BItem { space: f.space.clone(), choices: full, tags: c.tags.clone(), inputs: vec![input], module: c.render_module(), nontrivial: true };
                if let Err(e) = run_items("C02", vec![item], &rep, BOpts { no_std: false, features: "", name: format!("c02-replay{}", round), keep: false }) {
                    eprintln!("MACHINERY-ERROR: {}", e);
                    return 2;
                }
                obs.push(rep.failures.lock().unwrap().iter().map(|x| (x.kind.clone(), x.detail.clone())).collect::<Vec<_>>());
            }
            if obs[0] != obs[1] {
                eprintln!("MACHINERY-ERROR: non-deterministic replay");
                return 2;
            }
            if obs[0].is_empty() {
                println!("replay: no failure on this tree");
                return 0;
            }
            for (k, d) in &obs[0] {
                println!("REPLAYED property=C02 kind={} detail={}", k, d);
            }
            println!("input:\n{}", f.input);
            return 1;
        }
    }
    eprintln!("MACHINERY-ERROR: unknown space {}", f.space);
    2
}
