//! C07 - owned, by-reference, fallible and into-existing flavours of a mapping agree (engine B, differential).

use super::bcommon::{run_items, BItem};
use crate::explore::{explore, replay_one, Caps, Ctx};
use crate::report::{Failure, Report};
use crate::rt::BOpts;
use crate::sem_diff::{enum_module, flat_module, raise_module, struct_module};
use crate::sem_struct::{Flavour, MI};
use std::sync::Mutex;

const MENU_C07: &[MI] = &[MI::Plain, MI::Rename, MI::ExprTilde, MI::Ghost, MI::RenameExpr, MI::AtPair, MI::AsType, MI::AsTypeRename, MI::GhostNoDefault, MI::FalliblePair];

fn struct_opts(tier: &str) -> (crate::sem_struct::Opts, Option<usize>) {
    if tier == "quick" {
        (crate::sem_struct::Opts { max_n: 2, menu: MENU_C07, max_ghosts: 1, allow_update: true, permute_idx: true }, Some(5))
    } else {
        (crate::sem_struct::Opts { max_n: 3, menu: MENU_C07, max_ghosts: 1, allow_update: true, permute_idx: true }, None)
    }
}
fn enum_opts(tier: &str) -> (crate::sem_enum::EOpts, Option<usize>) {
    if tier == "quick" {
        (crate::sem_enum::EOpts { max_variants: 2, max_fields: 1, full_menu: true }, Some(4))
    } else {
        (crate::sem_enum::EOpts { max_variants: 2, max_fields: 2, full_menu: true }, Some(7))
    }
}
fn flat_opts(tier: &str) -> (crate::sem_flat::FlatOpts, Option<usize>) {
    if tier == "quick" {
        (crate::sem_flat::FlatOpts { max_members: 3, max_ghosts: 1, max_depth: 2, positional: false, ..crate::sem_flat::FlatOpts::DEF }, Some(5))
    } else {
        (crate::sem_flat::FlatOpts { max_members: 4, max_ghosts: 1, max_depth: 3, positional: false, ..crate::sem_flat::FlatOpts::DEF }, Some(7))
    }
}

fn gen_raise(ctx: &mut Ctx) -> Option<(usize, Vec<bool>, bool)> {
    let named = !ctx.flag();
    let n = 1 + ctx.choose(3);
    let raising: Vec<bool> = (0..n).map(|_| ctx.flag()).collect();
    if !raising.iter().any(|x| *x) {
        return ctx.reject();
    }
    Some((n, raising, named))
}

fn struct_item(space: &str, choices: &[u32], c: &crate::sem_struct::SCase) -> BItem {
    let mut inputs = vec![];
    if c.form == crate::sem_struct::CpForm::BareTuple {
        inputs.push(c.item("S", Flavour::Infallible).render());
        let mut sf = c.item("S", Flavour::Fallible);
        sf.name = "Sf".into();
        inputs.push(sf.render());
    } else {
        inputs.push(c.item("S", Flavour::Both).render());
    }
    BItem { space: space.into(), choices: choices.to_vec(), tags: c.tags.clone(), inputs, module: struct_module(c), nontrivial: c.nontrivial() }
}

pub fn collect(tier: &str, caps: &Caps, rep: &Report) -> Vec<BItem> {
    let items: Mutex<Vec<BItem>> = Mutex::new(vec![]);
    let (so, sb) = struct_opts(tier);
    let st = explore(|ctx| crate::sem_struct::gen(ctx, &so), sb, caps, |ch, c| items.lock().unwrap().push(struct_item("struct", ch, &c)));
    rep.add_stats("struct", &sb.map(|b| format!("dev({})", b)).unwrap_or("full".into()), &st);
    let (eo, eb) = enum_opts(tier);
    let st = explore(|ctx| crate::sem_enum::gen(ctx, &eo), eb, caps, |ch, c| items.lock().unwrap().push(BItem { space: "enum".into(), choices: ch.to_vec(), tags: c.tags.clone(), inputs: vec![c.item("S", None).render()], module: enum_module(&c), nontrivial: c.nontrivial() }));
    rep.add_stats("enum", &eb.map(|b| format!("dev({})", b)).unwrap_or("full".into()), &st);
    let (fo, fb) = flat_opts(tier);
    let st = explore(|ctx| crate::sem_flat::gen_child(ctx, &fo), fb, caps, |ch, c| items.lock().unwrap().push(BItem { space: "flat".into(), choices: ch.to_vec(), tags: c.tags.clone(), inputs: vec![c.item("S", true).render()], module: flat_module(&c), nontrivial: true }));
    rep.add_stats("flat", &fb.map(|b| format!("dev({})", b)).unwrap_or("full".into()), &st);
    let (mut fo, fb) = flat_opts(tier);
    fo.positional = true;
    let fb = fb.map(|b| b - 1);
    let st = explore(|ctx| crate::sem_flat::gen_child(ctx, &fo), fb, caps, |ch, c| items.lock().unwrap().push(BItem { space: "flat-pos".into(), choices: ch.to_vec(), tags: c.tags.clone(), inputs: vec![c.item("S", true).render()], module: flat_module(&c), nontrivial: true }));
    rep.add_stats("flat-pos", &fb.map(|b| format!("dev({})", b)).unwrap_or("full".into()), &st);
    let st = explore(gen_raise, None, caps, |ch, (n, raising, named)| {
        let (module, item) = raise_module(n, &raising, named);
        items.lock().unwrap().push(BItem { space: "raise".into(), choices: ch.to_vec(), tags: vec![format!("n={}", n), format!("named={}", named), format!("raising={:?}", raising)], inputs: vec![item], module, nontrivial: true });
    });
    rep.add_stats("raise", "full", &st);
    for (i, (module, inputs, tags)) in crate::sem_diff::raise_parent_modules().into_iter().enumerate() {
        items.lock().unwrap().push(BItem { space: "raise-parent".into(), choices: vec![i as u32], tags, inputs, module, nontrivial: true });
    }
    rep.add_stats("raise-parent", "full (8 fixed layouts)", &crate::explore::ExploreStats { leaves: 8, transitions: 8, ..Default::default() });
    // flattening across struct kinds (one and two nesting levels, C03's layouts): Into and IntoExisting are both held
    // against the one expected value of the layout
    let mk: Vec<_> = super::c03::mixed_kind_modules().into_iter().map(|x| ("mixed-kind", x)).chain(super::c03::mixed_kind2_modules().into_iter().map(|x| ("mixed-kind-2", x))).collect();
    let mut cnt = [0u64; 2];
    let mut idx = 0u32;
    let mut last = "";
    for (sp, (module, inputs, tags)) in mk {
        if sp != last {
            idx = 0;
            last = sp;
        }
        cnt[(sp == "mixed-kind-2") as usize] += 1;
        items.lock().unwrap().push(BItem { space: sp.into(), choices: vec![idx], tags, inputs, module, nontrivial: true });
        idx += 1;
    }
    rep.add_stats("mixed-kind", "full (fixed layouts)", &crate::explore::ExploreStats { leaves: cnt[0], transitions: cnt[0], ..Default::default() });
    rep.add_stats("mixed-kind-2", "full (8 kind triples x 2 deriving kinds x explicit / implicit nested hints x 6 member orders)", &crate::explore::ExploreStats { leaves: cnt[1], transitions: cnt[1], ..Default::default() });
    items.into_inner().unwrap()
}

pub fn run(tier: &str) -> i32 {
    let rep = Report::new("C07", tier, "model_checking");
    rep.set_rule("the struct, enum and flattening case spaces of C01/C02/C03 (member menu without the owned-only / ref-only ghost forms) with ALL flavours requested, compiled through the real derive and executed with a purely differential oracle (no expected constants): From<&T> == From<T>; by-ref Into == owned Into; TryFrom/TryInto == Ok(infallible result) against the layout-identical twin type; into_existing makes every mapped leaf equal to what into produced and leaves every unmapped leaf at its pre-value; plus a `?`-raising space: 1-3 members, every subset of them carrying a fallible expression, every subset of trigger values: the fallible flavours return Err of the FIRST raising member (declaration order), else Ok of the computed value; plus C03's mixed-kind layouts (named / tuple structs alternating over one and two nesting levels, every member order), where Into and IntoExisting are held against one expected value. states = distinct test modules");
    rep.assume("values are compared through their Debug text with the twin type names normalised; leaves are i32/i64");
    let caps = Caps::from_env(if tier == "quick" { 250.0 } else { 1500.0 });
    let items = collect(tier, &caps, &rep);
    if let Err(e) = run_items("C07", items, &rep, BOpts { no_std: false, features: "", name: "c07".into(), keep: std::env::var("VERIF_KEEP").is_ok() }) {
        eprintln!("MACHINERY-ERROR: {}", e);
        return 2;
    }
    rep.finish()
}

pub fn replay(f: &Failure) -> i32 {
    let mut obs = vec![];
    for round in 0..2 {
        let mut item: Option<BItem> = None;
        for t in ["quick", "thorough"] {
            if item.is_some() {
                break;
            }
            match f.space.as_str() {
                "struct" => {
                    let (o, _) = struct_opts(t);
                    if let (Some(c), full) = replay_one(|ctx| crate::sem_struct::gen(ctx, &o), &f.choices) {
                        let it = struct_item("struct", &full, &c);
                        if full == f.choices && it.inputs.join("\n") == f.input {
                            item = Some(it);
                        }
                    }
                }
                "enum" => {
                    let (o, _) = enum_opts(t);
                    if let (Some(c), full) = replay_one(|ctx| crate::sem_enum::gen(ctx, &o), &f.choices) {
                        if full == f.choices && c.item("S", None).render() == f.input {
                            item = Some(BItem { space: "enum".into(), choices: full, tags: c.tags.clone(), inputs: vec![f.input.clone()], module: enum_module(&c), nontrivial: true });
                        }
                    }
                }
                "mixed-kind" | "mixed-kind-2" => {
                    let v = if f.space == "mixed-kind" { super::c03::mixed_kind_modules() } else { super::c03::mixed_kind2_modules() };
                    item = v.into_iter().enumerate().find(|(i, _)| vec![*i as u32] == f.choices).map(|(_, (module, inputs, tags))| BItem { space: f.space.clone(), choices: f.choices.clone(), tags, inputs, module, nontrivial: true });
                }
                "raise-parent" => {
                    item = crate::sem_diff::raise_parent_modules().into_iter().enumerate().find(|(i, _)| vec![*i as u32] == f.choices).map(|(_, (module, inputs, tags))| BItem { space: f.space.clone(), choices: f.choices.clone(), tags, inputs, module, nontrivial: true });
                }
                "flat" | "flat-pos" => {
                    let (mut o, _) = flat_opts(t);
                    o.positional = f.space == "flat-pos";
                    if let (Some(c), full) = replay_one(|ctx| crate::sem_flat::gen_child(ctx, &o), &f.choices) {
                        if full == f.choices && c.item("S", true).render() == f.input {
                            item = Some(BItem { space: f.space.clone(), choices: full, tags: c.tags.clone(), inputs: vec![f.input.clone()], module: flat_module(&c), nontrivial: true });
                        }
                    }
                }
                _ => {
                    if let (Some((n, raising, named)), full) = replay_one(gen_raise, &f.choices) {
                        let (module, it) = raise_module(n, &raising, named);
                        if full == f.choices && it == f.input {
                            item = Some(BItem { space: "raise".into(), choices: full, tags: vec![], inputs: vec![it], module, nontrivial: true });
                        }
                    }
                }
            }
        }
        let item = match item {
            Some(i) => i,
            None => {
                eprintln!("MACHINERY-ERROR: cannot re-render {} {:?}", f.space, f.choices);
                return 2;
            }
        };
        let rep = Report::new("C07", "quick", "model_checking");
        if let Err(e) = run_items("C07", vec![item], &rep, BOpts { no_std: false, features: "", name: format!("c07-replay{}", round), keep: false }) {
            eprintln!("MACHINERY-ERROR: {}", e);
            return 2;
        }
        obs.push(rep.failures.lock().unwrap().iter().map(|x| (x.kind.clone(), x.detail.clone())).collect::<Vec<_>>());
    }
    if obs[0] != obs[1] {
        eprintln!("MACHINERY-ERROR: non-deterministic replay");
        return 2;
    }
    if obs[0].is_empty() {
        println!("replay: no failure on this tree");
        return 0;
    }
    for (k, d) in &obs[0] {
        println!("REPLAYED property=C07 kind={} detail={}", k, d);
    }
    println!("input:\n{}", f.input);
    1
}
