//! C20 part B: generated conversions compiled inside a #![no_std] library crate and run from a std driver.

use crate::explore::Caps;
use crate::report::{Failure, Report};

pub fn run_nostd(_tier: &str, _caps: &Caps, _rep: &Report) -> Result<(), String> {
    // filled in with the B-engine no_std batch (see rt.rs `no_std`)
    Ok(())
}

pub fn replay(_f: &Failure) -> i32 {
    0
}
