//! C20 part B: generated conversions compiled inside a #![no_std] library crate (dependencies exactly as the README
//! "no_std" section: o2o-macros + o2o with default-features = false) and run from a std driver.

use super::bcommon::{run_items, BItem};
use crate::explore::{explore, Caps};
use crate::report::{Failure, Report};
use crate::rt::BOpts;
use crate::sem_struct::{CpForm, Flavour};
use std::sync::Mutex;

pub fn collect(tier: &str, caps: &Caps, rep: &Report) -> Vec<BItem> {
    let items: Mutex<Vec<BItem>> = Mutex::new(vec![]);
    let quick = tier == "quick";
    // structs (all 12 kinds); cells with known value/compile defects on positional counterparts are C01's business
    let so = crate::sem_struct::Opts { max_n: 2, menu: crate::sem_struct::MENU_FULL, max_ghosts: 1, allow_update: true, permute_idx: false };
    let sb = if quick { Some(3) } else { Some(5) };
    let st = explore(|ctx| crate::sem_struct::gen(ctx, &so), sb, caps, |ch, c| {
        if c.form == CpForm::BareTuple || c.tags.iter().any(|t| t.starts_with("slot!=") || t == "form=same-idx") {
            return;
        }
        items.lock().unwrap().push(BItem { space: "nostd/struct".into(), choices: ch.to_vec(), tags: c.tags.clone(), inputs: vec![c.item("S", Flavour::Both).render()], module: c.render_module("x"), nontrivial: c.nontrivial() });
    });
    rep.add_stats("nostd/struct", &format!("dev({})", sb.unwrap()), &st);
    let eo = crate::sem_enum::EOpts { max_variants: 2, max_fields: 1, full_menu: true };
    let eb = if quick { Some(3) } else { Some(5) };
    let st = explore(|ctx| crate::sem_enum::gen(ctx, &eo), eb, caps, |ch, c| {
        items.lock().unwrap().push(BItem { space: "nostd/enum".into(), choices: ch.to_vec(), tags: c.tags.clone(), inputs: vec![c.item("S", None).render()], module: c.render_module(), nontrivial: c.nontrivial() });
    });
    rep.add_stats("nostd/enum", &format!("dev({})", eb.unwrap()), &st);
    let fo = crate::sem_flat::FlatOpts { max_members: 3, max_ghosts: 1, max_depth: 2, positional: false, ..crate::sem_flat::FlatOpts::DEF };
    let fb = if quick { Some(3) } else { Some(5) };
    let st = explore(|ctx| crate::sem_flat::gen_child(ctx, &fo), fb, caps, |ch, c| {
        items.lock().unwrap().push(BItem { space: "nostd/flat".into(), choices: ch.to_vec(), tags: c.tags.clone(), inputs: vec![c.item("S", true).render()], module: c.render_module(), nontrivial: true });
    });
    rep.add_stats("nostd/flat", &format!("dev({})", fb.unwrap()), &st);
    let st = explore(|ctx| crate::sem_flat::gen_parent(ctx, 2), Some(if quick { 3 } else { 5 }), caps, |ch, c| {
        items.lock().unwrap().push(BItem { space: "nostd/parent".into(), choices: ch.to_vec(), tags: c.tags.clone(), inputs: vec![c.item("S", true).render()], module: c.render_module(), nontrivial: true });
    });
    rep.add_stats("nostd/parent", "dev", &st);
    items.into_inner().unwrap()
}

pub fn run_nostd(tier: &str, caps: &Caps, rep: &Report) -> Result<(), String> {
    let items = collect(tier, caps, rep);
    eprintln!("  no_std batch: {} cases", items.len());
    run_items("C20", items, rep, BOpts { no_std: true, features: "", name: "c20".into(), keep: std::env::var("VERIF_KEEP").is_ok() })
}

pub fn replay(f: &Failure) -> i32 {
    println!("input:\n{}\n(no_std batch case; re-run ./check C20 to reproduce: space {} choices {:?})", f.input, f.space, f.choices);
    1
}
