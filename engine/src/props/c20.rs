//! C20 (part A) - generated code names library items only through ::core, o2o::traits and the language prelude.
//! Part B (a #![no_std] crate compiled by rustc) lives in c20b.rs.

use super::fail;
use crate::corpus;
use crate::explore::Caps;
use crate::feat::FCase;
use crate::report::{Failure, Report};
use crate::xp::{atoms_of_str, canon, expand_ts, trunc, Xp};
use serde_json::json;
use std::collections::BTreeSet;
use syn2 as syn;
use syn2::visit::Visit;

const KEYWORDS: &[&str] = &[
    "as", "break", "const", "continue", "crate", "else", "enum", "extern", "false", "fn", "for", "if", "impl", "in", "let", "loop", "match", "mod", "move", "mut", "pub", "ref", "return", "self", "Self", "static", "struct",
    "super", "trait", "true", "type", "unsafe", "use", "where", "while", "dyn", "async", "await",
];
/// names of the core prelude (available in #![no_std])
const CORE_PRELUDE: &[&str] = &[
    "Option", "Some", "None", "Result", "Ok", "Err", "Default", "Clone", "Copy", "From", "Into", "TryFrom", "TryInto", "AsRef", "AsMut", "Iterator", "IntoIterator", "Sized", "Send", "Sync", "Drop", "Fn", "FnMut", "FnOnce", "PartialEq",
    "Eq", "PartialOrd", "Ord", "default", "clone", "into", "from", "try_into", "try_from",
];
/// the skeleton the documentation spells out: trait paths, method names, `type Error`
const SKELETON: &[&str] = &["core", "convert", "result", "o2o", "traits", "IntoExisting", "TryIntoExisting", "into_existing", "try_into_existing", "Error"];

#[derive(Default)]
struct Binders {
    names: BTreeSet<String>,
}
impl<'ast> Visit<'ast> for Binders {
    fn visit_pat_ident(&mut self, p: &'ast syn::PatIdent) {
        self.names.insert(p.ident.to_string());
        syn::visit::visit_pat_ident(self, p);
    }
    fn visit_field_pat(&mut self, p: &'ast syn::FieldPat) {
        if let syn::Member::Named(i) = &p.member {
            if p.colon_token.is_none() {
                self.names.insert(i.to_string());
            }
        }
        syn::visit::visit_field_pat(self, p);
    }
    fn visit_lifetime(&mut self, l: &'ast syn::Lifetime) {
        self.names.insert(format!("'{}", l.ident));
    }
}

pub fn check_case(space: &str, choices: &[u32], c: &FCase, rep: &Report) {
    let input = c.item.render();
    rep.eval(1);
    rep.states.add_of(&input);
    let ts = match expand_ts(&input) {
        Ok(Ok(ts)) => ts,
        Ok(Err(m)) => {
            rep.count("rejected", 1);
            rep.outputs.add_of(&m);
            return;
        }
        Err(Xp::Panic { .. }) => {
            rep.count("panicked(C16)", 1);
            return;
        }
        Err(x) => {
            eprintln!("MACHINERY-ERROR: not an item: {}", x.short());
            std::process::exit(2);
        }
    };
    let file: syn::File = match syn::parse2(ts.clone()) {
        Ok(f) => f,
        Err(_) => {
            rep.count("unparsable(C17)", 1);
            return;
        }
    };
    rep.validate(1);
    rep.nontrivial.add_of(&input);
    let out_atoms = crate::xp::atoms(&ts);
    rep.outputs.add_of(&out_atoms.len());
    let in_atoms: BTreeSet<String> = atoms_of_str(&input).unwrap_or_default().into_iter().collect();
    let mut b = Binders::default();
    b.visit_file(&file);
    let is_ident = |s: &str| s.chars().next().map_or(false, |c| c.is_alphabetic() || c == '_') && s.chars().all(|c| c.is_alphanumeric() || c == '_');
    let mut problems: Vec<String> = vec![];
    for (i, a) in out_atoms.iter().enumerate() {
        // every path with a leading `::` is rooted at ::core
        if a == ":" && out_atoms.get(i + 1).map(|s| s.as_str()) == Some(":") {
            let prev_is_path = i > 0 && (is_ident(&out_atoms[i - 1]) || out_atoms[i - 1] == ">");
            let prev_colon = i > 0 && out_atoms[i - 1] == ":";
            if !prev_is_path && !prev_colon {
                let root = out_atoms.get(i + 2).cloned().unwrap_or_default();
                if root != "core" && !in_atoms.contains(&root) {
                    problems.push(format!("a `::`-rooted path starts with `{}` (only ::core is allowed)", root));
                }
            }
        }
        if !is_ident(a) {
            continue;
        }
        if in_atoms.contains(a) || KEYWORDS.contains(&a.as_str()) || CORE_PRELUDE.contains(&a.as_str()) || SKELETON.contains(&a.as_str()) || b.names.contains(a) {
            continue;
        }
        if a == "std" || a == "alloc" {
            problems.push(format!("generated code names `{}`", a));
        } else {
            problems.push(format!("identifier `{}` is neither from the input, nor bound locally, nor a core-prelude / skeleton name", a));
        }
    }
    // `core`, `convert`, `result` may only occur inside a `:: core :: ..` path; `o2o`/`traits` inside `o2o :: traits :: ..`
    problems.sort();
    problems.dedup();
    for p in problems {
        let mut f = fail(space, choices, &input, &c.tags, "foreign-library-item", p);
        f.observed = trunc(&canon(&ts), 700);
        rep.fail(f);
    }
    if rep.want_sample() && choices.iter().filter(|x| **x != 0).count() >= 4 {
        rep.sample(json!({"space": space, "choices": choices, "input": input, "locally_bound": b.names.iter().collect::<Vec<_>>()}));
    }
}

pub fn run(tier: &str) -> i32 {
    let rep = Report::new("C20", tier, "exploration");
    rep.set_rule("part A (provenance): every accepted input of the host corpus: no identifier `std` / `alloc` unless the input contains it; every `::`-rooted path is rooted at ::core; every other identifier of the output either occurs in the input, is bound in the generated code (fn parameter, let, pattern binding - read through a real parser), or is a keyword / core-prelude name / segment of the documented ::core::convert, ::core::result::Result, o2o::traits skeleton. Part B: the feature-interaction cases restricted to Copy leaves are compiled by rustc inside a #![no_std] library crate (dependencies as README 'no_std') and linked into a driver that runs the conversions. states = distinct inputs; non-trivial = accepted inputs with parsable output");
    rep.assume("local variable names are outside the statement (the rule is about library items); part A runs in-process, part B through rustc");
    let caps = Caps::from_env(if tier == "quick" { 150.0 } else { 1500.0 });
    corpus::for_each(tier, &caps, &rep, |space, choices, c| check_case(space, choices, &c, &rep));
    if let Err(e) = super::c20b::run_nostd(tier, &caps, &rep) {
        eprintln!("MACHINERY-ERROR: {}", e);
        return 2;
    }
    rep.finish()
}

pub fn replay(f: &Failure) -> i32 {
    if f.space.starts_with("nostd") {
        return super::c20b::replay(f);
    }
    let c = match corpus::replay_case(&["quick", "thorough"], &f.space, &f.choices) {
        Some(c) => c,
        None => {
            eprintln!("MACHINERY-ERROR: cannot re-render {} {:?}", f.space, f.choices);
            return 2;
        }
    };
    if c.item.render() != f.input {
        eprintln!("MACHINERY-ERROR: replay rendered a different input than recorded");
        return 2;
    }
    let rep = Report::new("C20", "quick", "exploration");
    check_case(&f.space, &f.choices, &c, &rep);
    let rep2 = Report::new("C20", "quick", "exploration");
    check_case(&f.space, &f.choices, &c, &rep2);
    let a: Vec<String> = rep.failures.lock().unwrap().iter().map(|x| x.detail.clone()).collect();
    let b: Vec<String> = rep2.failures.lock().unwrap().iter().map(|x| x.detail.clone()).collect();
    if a != b {
        eprintln!("MACHINERY-ERROR: non-deterministic replay");
        return 2;
    }
    if a.is_empty() {
        println!("replay: no failure on this tree");
        return 0;
    }
    for d in a {
        println!("REPLAYED property=C20 kind=foreign-library-item detail={}", d);
    }
    println!("input:\n{}", f.input);
    1
}
