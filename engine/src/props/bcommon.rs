//! Shared driver for engine-B properties: A pre-screen, batch build/run, status -> failures.

use crate::report::{Failure, Report};
use crate::rt::{run_batch, BCase, BOpts, BStatus};
use crate::xp::{expand_ts, Xp};
use serde_json::json;

pub struct BItem {
    pub space: String,
    pub choices: Vec<u32>,
    pub tags: Vec<String>,
    /// derive input(s) as source text (for reports and the A pre-screen); several inputs are separated in `inputs`
    pub inputs: Vec<String>,
    pub module: String,
    pub nontrivial: bool,
}

fn normalise_rustc(msg: &str) -> String {
    // keep the error code + first sentence; drop identifiers that vary per case only where harmless
    crate::xp::trunc(msg, 240)
}

/// label "try_owned_into/1" -> "try_owned_into"
pub fn label_kind(label: &str) -> &str {
    label.split('/').next().unwrap_or(label)
}

/// Runs items through A pre-screen + rustc + execution; pushes failures into the report.
/// `expect_accept`: a rejection/panic/unparsable output in the pre-screen is a failure of the property.
pub fn run_items(prop: &str, items: Vec<BItem>, rep: &Report, opts: BOpts) -> Result<(), String> {
    let mut items = items;
    items.sort_by(|a, b| (&a.space, &a.choices).cmp(&(&b.space, &b.choices)));
    // dedup by module text (symmetries of the generator)
    let mut seen = std::collections::HashSet::new();
    items.retain(|it| seen.insert(crate::report::h64(&it.module)));
    let mut cases: Vec<BCase> = vec![];
    let mut idx_of: Vec<usize> = vec![];
    for (i, it) in items.iter().enumerate() {
        rep.states.add_of(&it.module);
        if it.nontrivial {
            rep.nontrivial.add_of(&it.module);
        }
        rep.eval(1);
        let mut ok = true;
        for inp in &it.inputs {
            let mk = |kind: &str, detail: String| Failure {
                space: it.space.clone(), choices: it.choices.clone(), input: it.inputs.join("\n"), aux: String::new(), tags: it.tags.clone(), kind: kind.into(), detail,
                expected: "accepted; output compiles".into(), observed: String::new(),
            };
            match expand_ts(inp) {
                Ok(Ok(ts)) => {
                    if let crate::ir::OutIR::Unparsable(e) = crate::ir::analyse(&ts) {
                        let mut f = mk("unparsable-output", format!("generated code does not parse: {}", e));
                        f.observed = crate::xp::trunc(&crate::xp::canon(&ts), 600);
                        rep.fail(f);
                        rep.outputs.add(2);
                        ok = false;
                    }
                }
                Ok(Err(msgs)) => {
                    let mut f = mk("rejected-valid-input", msgs.iter().skip(if msgs.len() > 1 { 1 } else { 0 }).cloned().collect::<Vec<_>>().join(" | "));
                    f.observed = format!("{:?}", msgs);
                    rep.fail(f);
                    rep.outputs.add(3);
                    ok = false;
                }
                Err(Xp::Panic { msg, loc }) => {
                    let mut f = mk("panic", format!("{} @ {}", msg, loc.split(':').next().unwrap_or("")));
                    f.observed = format!("{} @ {}", msg, loc);
                    rep.fail(f);
                    rep.outputs.add(4);
                    ok = false;
                }
                Err(other) => return Err(format!("generator produced an input that is not a derive input: {} :: {}", other.short(), inp)),
            }
        }
        if ok {
            cases.push(BCase { id: format!("{:05}", i), module: it.module.clone() });
            idx_of.push(i);
        }
    }
    rep.count("prescreen_passed", cases.len() as u64);
    eprintln!("  {}: {} distinct test modules ({} after the in-process pre-screen)", prop, items.len(), cases.len());
    if std::env::var("VERIF_COUNT_ONLY").is_ok() {
        return Err("VERIF_COUNT_ONLY set: modules counted, nothing built".into());
    }
    let st = run_batch(&cases, &opts)?;
    let mut passed_checks = 0usize;
    for (ci, c) in cases.iter().enumerate() {
        let it = &items[idx_of[ci]];
        let mk = |kind: &str, detail: String, tags: Vec<String>| Failure {
            space: it.space.clone(), choices: it.choices.clone(), input: it.inputs.join("\n"), aux: it.module.clone(), tags, kind: kind.into(), detail, expected: String::new(), observed: String::new(),
        };
        rep.validate(1);
        match st.get(&c.id) {
            Some(BStatus::Pass { checks }) => {
                passed_checks += checks;
                rep.count("cases_passed", 1);
                rep.outputs.add_of(&("pass", checks)); // distinct assertion counts = distinct shapes of passing cases
                if rep.want_sample() && it.nontrivial {
                    rep.sample(json!({"space": it.space, "choices": it.choices, "input": it.inputs, "assertions_passed": checks, "tags": it.tags}));
                }
            }
            Some(BStatus::CompileFail { msg }) => {
                rep.count("rustc_rejected", 1);
                rep.outputs.add_of(&("cf", normalise_rustc(msg)));
                let mut f = mk("rustc-rejected", normalise_rustc(msg), it.tags.clone());
                f.expected = "generated impls type-check".into();
                f.observed = msg.clone();
                rep.fail(f);
            }
            Some(BStatus::RunFail { fails, checks }) => {
                passed_checks += checks - fails.len();
                rep.count("cases_wrong_value", 1);
                // one failure per conversion kind
                let mut by_kind: std::collections::BTreeMap<String, (String, String, usize)> = Default::default();
                for (label, exp, got) in fails {
                    let e = by_kind.entry(label_kind(label).to_string()).or_insert((exp.clone(), got.clone(), 0));
                    e.2 += 1;
                }
                for (k, (exp, got, n)) in by_kind {
                    rep.outputs.add_of(&("rf", &k));
                    let mut tags = it.tags.clone();
                    // flavour the assertion is about: the label up to the first ':' / '=' (differential labels)
                    let flavour = k.split(|c| c == ':' || c == '=').next().unwrap_or(&k).trim().to_string();
                    tags.push(format!("kind={}", flavour));
                    let mut f = mk("wrong-value", format!("{}: {} assertion(s) failed", k, n), tags);
                    f.expected = exp;
                    f.observed = got;
                    rep.fail(f);
                }
            }
            Some(BStatus::Panic { msg }) => {
                rep.count("cases_run_panic", 1);
                rep.outputs.add_of(&("rp", msg));
                rep.fail(mk("run-panic", msg.clone(), it.tags.clone()));
            }
            Some(BStatus::NotRun) | None => return Err(format!("case {} was neither rejected by rustc nor run", c.id)),
        }
    }
    rep.count("assertions_passed", passed_checks as u64);
    let _ = prop;
    Ok(())
}
