//! C16 - expansion never panics: every input yields impls or diagnostics.
//!
//! Spaces: `soup` (one attribute with every short argument token sequence at every level of tiny hosts),
//! `combo` (every pair / triple of catalogue instructions over every pair of holes of the hosts),
//! `mutate` (every single-token mutation of every catalogue instruction). Oracle: `catch_unwind` never fires.

use super::{fail, replay_space, run_space, Space};
use crate::explore::{Caps, Ctx};
use crate::report::{Failure, Report};
use crate::xp::{expand_verdict, Xp};
use serde_json::json;

pub struct Case {
    pub input: String,
    pub tags: Vec<String>,
    /// for cause minimisation: template, host traits, placed parts (hole, attribute text, label)
    pub templ: &'static str,
    pub traits: &'static str,
    pub parts: Vec<(usize, String, String)>,
}

pub fn hole_class(h: &str) -> &'static str {
    if h.starts_with("type") {
        "type"
    } else if h.starts_with("field") {
        "field"
    } else if h.starts_with("variant") {
        "variant"
    } else {
        "vfield"
    }
}

fn build(templ: &'static str, traits: &'static str, parts: Vec<(usize, String, String)>, tags: Vec<String>) -> Case {
    let holes: Vec<(usize, String)> = parts.iter().map(|p| (p.0, p.1.clone())).collect();
    let input = fill(templ, traits, &holes);
    let mut tags = tags;
    // an enum for which an (unsupported, see known findings) into_existing impl is requested
    if let Some(i) = input.find("enum S") {
        if input[..i].contains("into_existing(") {
            tags.push("enum+into_existing".into());
        }
    }
    // no struct / enum body is rendered at all: the host converts every kind by a quick return and no injected type-level
    // trait instruction asks for a rendered body (one for another counterpart would)
    if tags.iter().any(|t| t == "traits=quick-return") {
        let asks_body = parts.iter().any(|p| {
            let name = p.2.split(|c| c == '@' || c == '(').next().unwrap_or("").trim();
            p.2.ends_with("@type") && crate::model::all_trait_names().iter().any(|n| *n == name) && !p.1.contains("return")
        });
        if !asks_body {
            tags.push("bodies=none".into());
        }
    }
    Case { input, tags, templ, traits, parts }
}

fn panic_detail(x: &Xp) -> Option<String> {
    match x {
        Xp::Panic { msg, loc } => Some(format!("{} @ {}", msg, loc.split(':').next().unwrap_or(""))),
        _ => None,
    }
}

/// greedy 1-minimal subset of the placed instructions that still panics at the same site
fn minimal_cause(case: &Case, detail: &str) -> String {
    let mut parts = case.parts.clone();
    let mut i = 0;
    while i < parts.len() && parts.len() > 1 {
        let mut trial = parts.clone();
        trial.remove(i);
        let holes: Vec<(usize, String)> = trial.iter().map(|p| (p.0, p.1.clone())).collect();
        let x = expand_verdict(&fill(case.templ, case.traits, &holes));
        if panic_detail(&x).as_deref() == Some(detail) {
            parts = trial;
        } else {
            i += 1;
        }
    }
    let mut labels: Vec<String> = parts.iter().map(|p| p.2.clone()).collect();
    labels.sort();
    labels.join(" && ")
}

/// coarse root-cause class: `name@holeclass` of the minimal parts, without arguments and without the type-level
/// trait instructions (those only enable conversion kinds)
fn cause_class(cause: &str) -> String {
    let mut v: Vec<String> = cause
        .split(" && ")
        .filter_map(|l| {
            let at = l.rfind('@')?;
            let name = l[..at].split('(').next().unwrap().trim().to_string();
            let class = &l[at + 1..];
            if class == "type" && crate::model::appl(&name).is_some() {
                None
            } else {
                Some(format!("{}@{}", name, class))
            }
        })
        .collect();
    v.sort();
    v.dedup();
    v.join("+")
}

/// hosts: (tag, template, holes, hole tags). `{T}` is replaced by a host trait-instruction set.
pub const HOSTS: &[(&str, &str, &[&str])] = &[
    ("named", "@0@\n{T}\n@1@\nstruct S {\n @2@ a: i32,\n @3@ b: i32,\n @4@ c: i32,\n}", &["type-before", "type-after", "field0", "field1", "field2"]),
    ("tuple", "@0@\n{T}\n@1@\nstruct S(\n @2@ i32,\n @3@ i32,\n);", &["type-before", "type-after", "field0", "field1"]),
    ("unit", "@0@\n{T}\n@1@\nstruct S;", &["type-before", "type-after"]),
    (
        "enum",
        "@0@\n{T}\n@1@\nenum S {\n @2@ A,\n @3@ B(@4@ i32, @5@ i32),\n @6@ C { @7@ x: i32, @8@ y: i32 },\n @9@ D,\n}",
        &["type-before", "type-after", "variant-unit", "variant-tuple", "vfield-tuple0", "vfield-tuple1", "variant-struct", "vfield-named0", "vfield-named1", "variant-last"],
    ),
];

pub const HOST_TRAITS: &[(&str, &str)] = &[
    ("infallible", "#[map(T)]"),
    ("fallible", "#[try_map(T, Er)]"),
    ("existing", "#[into_existing(T)]\n#[try_into_existing(T, Er)]"),
    ("two", "#[map(T)]\n#[from(U)]\n#[owned_into_existing(U)]"),
    ("hint-struct", "#[map(T as {})]\n#[into_existing(T as {})]"),
    ("hint-tuple", "#[map(T as ())]\n#[into_existing(T as ())]"),
    // every kind converted by a quick return: no struct / enum body is rendered at all, so instructions that only matter
    // to a body (and the known todo!()s of KF-C16-01..07/09 that sit in body rendering) must stay silent (seed C16-08)
    ("quick-return", "#[from(T| return Default::default())]\n#[into(T| return Default::default())]\n#[into_existing(T| return Default::default())]"),
    ("none", ""),
];

pub const NAMES: &[&str] = &[
    "map", "from", "into", "owned_into", "ref_into", "from_owned", "from_ref", "map_owned", "map_ref", "owned_into_existing", "ref_into_existing", "into_existing",
    "try_map", "try_from", "try_into", "owned_try_into", "ref_try_into", "try_from_owned", "try_from_ref", "try_map_owned", "try_map_ref", "owned_try_into_existing",
    "ref_try_into_existing", "try_into_existing", "ghost", "ghost_owned", "ghost_ref", "ghosts", "ghosts_owned", "ghosts_ref", "child", "children", "child_parents",
    "parent", "as_type", "literal", "pattern", "type_hint", "where_clause", "repeat", "skip_repeat", "stop_repeat", "allow_unknown", "foo", "doc",
];

pub const BASE: &[&str] = &[
    "a", "T", "Er", "0", "\"s\"", "|", ",", ":", ".", "::", "@", "~", "..", "_", "=>", "as", "return", "vars", "repeat", "skip_repeat", "Unit",
    // literal varieties and further punctuation
    "1u8", "4294967296", "1.5", "'c'", "b\"x\"", "r#type", "'a", "-", "!", "?", ";", "<", ">", "&", "*", "=", "#", "permeate",
];
pub const GROUPS: &[(&str, &str)] = &[("(", ")"), ("{", "}"), ("[", "]")];

fn fill(template: &str, traits: &str, holes: &[(usize, String)]) -> String {
    let mut s = template.replace("{T}", traits);
    for i in 0..12 {
        let key = format!("@{}@", i);
        if !s.contains(&key) {
            continue;
        }
        let mut rep = String::new();
        for (h, txt) in holes {
            if *h == i {
                rep.push_str(txt);
                rep.push(' ');
            }
        }
        s = s.replace(&key, &rep);
    }
    s
}

// ---------------------------------------------------------------------------------------------------------------
// soup

pub struct Soup {
    pub min_len: usize,
    pub max_len_a1: usize,
    pub max_len_a2: usize,
    /// core = 8 representative holes x 2 host trait sets; else every hole x every trait set
    pub core: bool,
}

/// (host index, hole index) of the representative holes
const CORE_HOLES: &[(usize, usize)] = &[(0, 1), (0, 2), (1, 2), (3, 1), (3, 2), (3, 3), (3, 4), (3, 7)];
const CORE_TRAITS: &[usize] = &[0, 1];

fn soup_token(ctx: &mut Ctx, a2: bool) -> String {
    // alphabet A1: base tokens + empty groups; A2 adds one-token groups
    let n1 = BASE.len() + GROUPS.len();
    let n = if a2 { n1 + GROUPS.len() * BASE.len() } else { n1 };
    let k = ctx.choose(n);
    if k < BASE.len() {
        BASE[k].to_string()
    } else if k < n1 {
        let g = GROUPS[k - BASE.len()];
        format!("{}{}", g.0, g.1)
    } else {
        let k = k - n1;
        let g = GROUPS[k / BASE.len()];
        format!("{}{}{}", g.0, BASE[k % BASE.len()], g.1)
    }
}

impl Space for Soup {
    type Case = Case;
    fn name(&self) -> String {
        format!("soup({},{},{},{})", self.min_len, self.max_len_a1, self.max_len_a2, self.core)
    }
    fn gen(&self, ctx: &mut Ctx) -> Option<Case> {
        let (h, hole, t) = if self.core {
            let (h, hole) = CORE_HOLES[ctx.choose(CORE_HOLES.len())];
            (h, hole, CORE_TRAITS[ctx.choose(CORE_TRAITS.len())])
        } else {
            let h = ctx.choose(HOSTS.len());
            let hole = ctx.choose(HOSTS[h].2.len());
            (h, hole, ctx.choose(HOST_TRAITS.len()))
        };
        let (htag, templ, holes) = HOSTS[h];
        let name = NAMES[ctx.choose(NAMES.len())];
        let wrap = ctx.choose(2);
        // argument form: 0 = parenthesised token list, 1 = no parentheses, 2 = name = "v"
        let form = ctx.choose(3);
        let args = match form {
            0 => {
                let a2 = ctx.flag();
                let max = if a2 { self.max_len_a2 } else { self.max_len_a1 };
                if a2 && max == 0 {
                    return ctx.reject();
                }
                if max < self.min_len {
                    return ctx.reject();
                }
                let len = self.min_len + ctx.choose(max + 1 - self.min_len);
                if a2 && len == 0 {
                    return ctx.reject(); // the empty sequence is covered by a1
                }
                let toks: Vec<String> = (0..len).map(|_| soup_token(ctx, a2)).collect();
                if a2 && !toks.iter().any(|t| t.len() > 2 && (t.starts_with('(') || t.starts_with('{') || t.starts_with('['))) {
                    return ctx.reject(); // a2 sequences without a non-empty group are covered by a1
                }
                format!("({})", toks.join(" "))
            }
            1 => String::new(),
            _ => " = \"v\"".to_string(),
        };
        let attr = if wrap == 0 {
            format!("#[{}{}]", name, args)
        } else {
            if form == 2 {
                return ctx.reject();
            }
            format!("#[o2o({}{})]", name, args)
        };
        let tags = vec![
            format!("host={}", htag),
            format!("hole={}", holes[hole]),
            format!("traits={}", HOST_TRAITS[t].0),
            format!("name={}", name),
            format!("wrap={}", if wrap == 0 { "bare" } else { "o2o" }),
        ];
        Some(build(templ, HOST_TRAITS[t].1, vec![(hole, attr, format!("{}@{}", name, hole_class(holes[hole])))], tags))
    }
    fn check(&self, case: Case, choices: &[u32], rep: &Report) {
        check_no_panic(&self.name(), case, choices, rep)
    }
}

pub fn check_no_panic(space: &str, case: Case, choices: &[u32], rep: &Report) {
    rep.eval(1);
    let x = expand_verdict(&case.input);
    if matches!(x, Xp::NotAnItem(_)) {
        rep.count("not_an_item", 1);
        return;
    }
    rep.validate(1);
    rep.states.add_of(&case.input);
    match &x {
        Xp::Ok(_) => {
            rep.count("accepted", 1);
            rep.outputs.add(1);
        }
        Xp::Err(m) => {
            rep.count("rejected", 1);
            rep.nontrivial.add_of(&case.input);
            rep.outputs.add_of(m);
        }
        Xp::Panic { msg, loc } => {
            rep.count("panicked", 1);
            rep.nontrivial.add_of(&case.input);
            rep.outputs.add_of(&(msg, loc));
            // detail = message + file (no line number: unrelated edits must not change the identity of a finding)
            let detail = panic_detail(&x).unwrap();
            let mut tags = case.tags.clone();
            let cause = minimal_cause(&case, &detail);
            tags.push(format!("causeclass={}", cause_class(&cause)));
            tags.push(format!("cause={}", cause));
            let mut f = fail(space, choices, &case.input, &tags, "panic", detail);
            f.observed = format!("{} @ {}", msg, loc);
            f.expected = "Ok(impls) or Err(diagnostics)".into();
            rep.fail(f);
        }
        Xp::NotAnItem(_) => unreachable!(),
    }
    if rep.want_sample() && choices.iter().filter(|c| **c != 0).count() >= 3 {
        rep.sample(json!({"space": space, "choices": choices, "input": case.input, "verdict": x.verdict()}));
    }
}

// ---------------------------------------------------------------------------------------------------------------
// catalogue of well-formed instruction instances

pub const CATALOGUE: &[&str] = &[
    // type level
    "map(T)", "map(U)", "map(T as {})", "map(T as ())", "map(T as Unit)", "map((i32, i32))", "from(T)", "into(T)", "into_existing(T)", "try_map(T, Er)", "try_into_existing(T, Er)",
    "owned_into(T| return T::default())", "from_owned(T| vars(v: {1}), ..T::default())", "map(T| _ => panic!())", "from(V| repeat(), return x)", "from(W)", "from(W| skip_repeat)",
    "from(W| stop_repeat)", "from(X| stop_repeat, repeat(vars), vars(k: {1}))", "into(T| attribute(inline), impl_attribute(cfg(all())), inner_attribute(allow(unused)))",
    "ghosts(x: {1})", "ghosts(T| x: {1})", "ghosts(p@x: {1})", "ghosts(0: {1})", "ghosts(V: {S::A})", "ghosts(V(..): {S::A})", "ghosts(V{x, ..}: {S::A})", "ghosts_owned(x: {1})", "ghosts_ref(T| x: {1})",
    "child_parents(p: P)", "child_parents(T| p: P, p.q: Q as ())", "where_clause(T: Clone)", "where_clause(T| A: Clone)", "allow_unknown", "children()",
    // member level
    "map(x)", "map(0)", "map(~ + 1)", "map(x, ~ + 1)", "map(T| x)", "map(U| 1, @.x)", "from(@.x)", "into(y, ~.clone())", "try_map(x)", "try_from(~.try_into()?)", "into_existing(x)", "owned_into(z)", "ref_into(T| z)",
    "from", "map()", "ghost", "ghost({1})", "ghost(T| {1})", "ghost(T)", "ghost_owned", "ghost_ref({1})", "child(p)", "child(p.q)", "child(T| p)", "child(0)", "parent", "parent()", "parent(T)", "parent(x, y)",
    "parent(T| x, [map(z)] y)", "parent([parent(x)] p: P)", "parent([parent(x)] p)", "parent(0, 1)", "as_type(i64)", "as_type(x, i64)", "as_type(T| i64)", "literal(1)", "literal(T| 1)", "literal(\"s\")", "pattern(_)",
    "pattern(1..=2)", "pattern(T| 1 | 2)", "type_hint(as ())", "type_hint(as {})", "type_hint(as Unit)", "type_hint(T| as ())", "repeat", "repeat()", "repeat(map)", "repeat(ghost, child)", "repeat(permeate())",
    "repeat(permeate(), map)", "skip_repeat", "stop_repeat", "child_parents(p: P)", "foo(1)",
];

fn render_cat(entry: &str, wrap: usize) -> String {
    let name = entry.split('(').next().unwrap();
    if wrap == 0 && crate::item::has_bare_form(name) || (wrap == 0 && name == "foo") {
        format!("#[{}]", entry)
    } else {
        format!("#[o2o({})]", entry)
    }
}

pub struct Combo {
    pub n: usize, // number of instructions placed (2 or 3)
    /// curated = hole tuples from CURATED, 3 host trait sets, no wrap variation
    pub curated: bool,
}

/// (host, holes) pairs that put two instructions on the same member, on neighbouring members, on a variant and its
/// field, or at type level + member
const CURATED: &[(usize, [usize; 2])] = &[
    (0, [1, 2]), (0, [2, 2]), (0, [2, 3]), (1, [1, 2]), (1, [2, 2]), (1, [2, 3]), (2, [1, 1]), (3, [1, 3]), (3, [1, 4]), (3, [2, 2]), (3, [3, 3]), (3, [3, 4]), (3, [4, 4]),
    (3, [4, 5]), (3, [6, 6]), (3, [6, 7]), (3, [7, 7]), (3, [7, 8]), (3, [3, 6]), (3, [2, 9]),
];

impl Space for Combo {
    type Case = Case;
    fn name(&self) -> String {
        format!("combo({},{})", self.n, self.curated)
    }
    fn gen(&self, ctx: &mut Ctx) -> Option<Case> {
        let cur = if self.curated { Some(CURATED[ctx.choose(CURATED.len())]) } else { None };
        let h = match cur {
            Some((h, _)) => h,
            None => ctx.choose(HOSTS.len()),
        };
        let (htag, templ, holes) = HOSTS[h];
        let t = if self.curated { ctx.choose(3) } else { ctx.choose(HOST_TRAITS.len()) };
        let mut placed: Vec<(usize, String, String)> = vec![];
        let mut tags = vec![format!("host={}", htag), format!("traits={}", HOST_TRAITS[t].0)];
        let mut last_hole = 0;
        for i in 0..self.n {
            // holes are chosen non-decreasing (order inside one hole = order of selection)
            let hole = match cur {
                Some((_, hs)) => hs[i.min(1)],
                None => last_hole + ctx.choose(holes.len() - last_hole),
            };
            last_hole = hole;
            let c = ctx.choose(CATALOGUE.len());
            // wrapping only varied for the first instruction (spelling equivalence is C13's business)
            let wrap = if i == 0 && !self.curated { ctx.choose(2) } else { 0 };
            placed.push((hole, render_cat(CATALOGUE[c], wrap), format!("{}@{}", CATALOGUE[c], hole_class(holes[hole]))));
            tags.push(format!("instr{}={}@{}", i, CATALOGUE[c].split('(').next().unwrap(), holes[hole]));
            tags.push(format!("has={}", CATALOGUE[c].split('(').next().unwrap()));
            tags.push(format!("cat={}", CATALOGUE[c]));
        }
        Some(build(templ, HOST_TRAITS[t].1, placed, tags))
    }
    fn check(&self, case: Case, choices: &[u32], rep: &Report) {
        check_no_panic(&self.name(), case, choices, rep)
    }
}

// ---------------------------------------------------------------------------------------------------------------
// single-token mutations of catalogue entries

/// the exotic token forms of C18's `token-forms` space (attribute contents, literals, patterns, expressions, types, where
/// predicates in every hole that forwards user tokens): none may make the derive panic
pub struct TokenForms;

impl Space for TokenForms {
    type Case = Case;
    fn name(&self) -> String {
        "token-forms".into()
    }
    fn gen(&self, ctx: &mut Ctx) -> Option<Case> {
        let (input, tags) = super::c18::gen_token_forms(ctx)?;
        Some(Case { input, tags, templ: "", traits: "", parts: vec![] })
    }
    fn check(&self, case: Case, choices: &[u32], rep: &Report) {
        check_no_panic(&self.name(), case, choices, rep)
    }
}

pub struct Mutate;

const REPL: &[&str] = &["a", "0", "|", ",", ":", ".", "@", "~", "..", "_", "as", "()", "{}", "T"];

fn lex(s: &str) -> Option<Vec<String>> {
    // top-level token trees of the entry's argument list, as text (groups stay whole); plus a flattened variant
    let ts: proc_macro2::TokenStream = s.parse().ok()?;
    Some(ts.into_iter().map(|t| t.to_string()).collect())
}

impl Space for Mutate {
    type Case = Case;
    fn name(&self) -> String {
        "mutate".into()
    }
    fn gen(&self, ctx: &mut Ctx) -> Option<Case> {
        let h = ctx.choose(HOSTS.len());
        let (htag, templ, holes) = HOSTS[h];
        let hole = ctx.choose(holes.len());
        let t = ctx.choose(HOST_TRAITS.len());
        let c = ctx.choose(CATALOGUE.len());
        let entry = CATALOGUE[c];
        let name = entry.split('(').next().unwrap();
        let args = if let Some(i) = entry.find('(') { &entry[i + 1..entry.len() - 1] } else { return ctx.reject() };
        // descend into the first group of the argument list or stay at top level
        let toks = lex(args)?;
        if toks.is_empty() {
            return ctx.reject();
        }
        let pos = ctx.choose(toks.len());
        let op = ctx.choose(3 + REPL.len());
        let mut v = toks.clone();
        match op {
            0 => {
                v.remove(pos);
            }
            1 => {
                let x = v[pos].clone();
                v.insert(pos, x);
            }
            2 => {
                if pos + 1 >= v.len() {
                    return ctx.reject();
                }
                v.swap(pos, pos + 1);
            }
            k => {
                // replace, or (second round) insert before
                let ins = ctx.flag();
                if ins {
                    v.insert(pos, REPL[k - 3].to_string());
                } else {
                    v[pos] = REPL[k - 3].to_string();
                }
            }
        }
        let attr = render_cat(&format!("{}({})", name, v.join(" ")), ctx.choose(2));
        let tags = vec![format!("host={}", htag), format!("hole={}", holes[hole]), format!("traits={}", HOST_TRAITS[t].0), format!("name={}", name), format!("has={}", name)];
        Some(build(templ, HOST_TRAITS[t].1, vec![(hole, attr, format!("{}@{}", name, hole_class(holes[hole])))], tags))
    }
    fn check(&self, case: Case, choices: &[u32], rep: &Report) {
        check_no_panic(&self.name(), case, choices, rep)
    }
}

pub fn run(tier: &str) -> i32 {
    let rep = Report::new("C16", tier, "exploration");
    rep.set_rule(
        "every derive input of three bounded grammars is expanded by the real o2o_impl::expand::derive under catch_unwind: soup = {4 hosts x every hole x 7 host trait sets (one converts every kind by a quick return: nothing that only a body needs may panic there) x 45 instruction names x bare|o2o(..) x (no args | = \"v\" | every token sequence up to the stated length over the 24-token alphabet A1 / 87-token alphabet A2)}; combo(n) = every n-tuple of the 90-entry instruction catalogue over every non-decreasing tuple of holes; mutate = every single-token delete/duplicate/swap/replace/insert of every catalogue entry. states = distinct input texts; non-trivial = inputs that are rejected or panic (i.e. reach validation/diagnostic code rather than plain expansion)",
    );
    rep.assume("inputs are lexed by proc_macro2's fallback lexer and parsed by syn 1 (default features), as in the real macro build minus rustc's lexer");
    rep.assume("a panic is identified by message + file (line numbers are informational)");
    let quick = tier == "quick";
    let caps = Caps::from_env(if quick { 100.0 } else { 1500.0 });
    run_space(&TokenForms, None, &caps, &rep);
    if quick {
        run_space(&Combo { n: 2, curated: true }, None, &caps, &rep);
        run_space(&Mutate, Some(5), &caps, &rep);
        run_space(&Soup { min_len: 0, max_len_a1: 2, max_len_a2: 0, core: true }, None, &caps, &rep);
        run_space(&Soup { min_len: 0, max_len_a1: 0, max_len_a2: 1, core: false }, None, &caps, &rep);
    } else {
        run_space(&Combo { n: 2, curated: false }, None, &caps, &rep);
        run_space(&Mutate, None, &caps, &rep);
        run_space(&Soup { min_len: 0, max_len_a1: 2, max_len_a2: 1, core: false }, None, &caps, &rep);
        // order: the bounded triple space first, the largest product last (a wall cap, if hit, is reported per space)
        run_space(&Combo { n: 3, curated: true }, Some(5), &caps, &rep);
        run_space(&Soup { min_len: 3, max_len_a1: 3, max_len_a2: 0, core: true }, None, &caps, &rep);
    }
    rep.finish()
}

pub fn replay(f: &Failure) -> i32 {
    let sp = f.space.as_str();
    if sp.starts_with("soup(") {
        let p: Vec<&str> = sp.trim_start_matches("soup(").trim_end_matches(')').split(',').collect();
        replay_space(&Soup { min_len: p[0].parse().unwrap(), max_len_a1: p[1].parse().unwrap(), max_len_a2: p[2].parse().unwrap(), core: p[3] == "true" }, f, "C16")
    } else if sp.starts_with("combo(") {
        let p: Vec<&str> = sp.trim_start_matches("combo(").trim_end_matches(')').split(',').collect();
        replay_space(&Combo { n: p[0].parse().unwrap(), curated: p[1] == "true" }, f, "C16")
    } else if sp == "mutate" {
        replay_space(&Mutate, f, "C16")
    } else if sp == "token-forms" {
        replay_space(&TokenForms, f, "C16")
    } else {
        eprintln!("MACHINERY-ERROR: unknown space {}", sp);
        2
    }
}
