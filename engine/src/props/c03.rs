//! C03 - flattened (child/parent) mappings are faithful; each nested struct is built once (engine B).

use super::bcommon::{run_items, BItem};
use crate::explore::{explore, replay_one, Caps};
use crate::report::{Failure, Report};
use crate::rt::BOpts;
use crate::sem_flat::{gen_child, gen_parent, FlatOpts};
use std::sync::Mutex;

/// the positional twin of the child space: tuple structs all the way down, indices as paths
fn child_pos_opts(tier: &str) -> (FlatOpts, Option<usize>) {
    if tier == "quick" {
        (FlatOpts { max_members: 3, max_ghosts: 1, max_depth: 2, positional: true, ..crate::sem_flat::FlatOpts::DEF }, Some(6))
    } else {
        (FlatOpts { max_members: 4, max_ghosts: 1, max_depth: 2, positional: true, ..crate::sem_flat::FlatOpts::DEF }, Some(6))
    }
}

/// the deepest layout of the path universe as a FIXED node set (p, p.q, p.qr, p.q.r - choosing it costs 4 deviations
/// in `child` before any member is placed): plain members, every assignment of 2-3 (thorough: 2-4) members to the five
/// structs in every order, exhaustively (seed C03-08: members of p.q / a sibling / p.q.r interleaved)
fn child_deep_opts(tier: &str) -> FlatOpts {
    const DEEP: [&str; 4] = ["p", "p.q", "p.qr", "p.q.r"];
    FlatOpts { max_members: if tier == "quick" { 3 } else { 4 }, max_ghosts: 0, max_depth: 3, fixed_nodes: Some(&DEEP), plain_only: true, ..FlatOpts::DEF }
}

fn child_opts(tier: &str) -> (FlatOpts, Option<usize>) {
    if tier == "quick" {
        (FlatOpts { max_members: 3, max_ghosts: 1, max_depth: 2, positional: false, ..crate::sem_flat::FlatOpts::DEF }, Some(5))
    } else {
        (FlatOpts { max_members: 4, max_ghosts: 1, max_depth: 3, positional: false, ..crate::sem_flat::FlatOpts::DEF }, Some(7))
    }
}

/// bare #[parent]: the parent member's type derives its own conversions to the same counterpart
fn bare_parent_modules() -> Vec<(String, Vec<String>, String, Vec<String>)> {
    let mut v = vec![];
    for named in [true, false] {
        for two_parents in [false, true] {
            for plain_first in [true, false] {
                let d = "#[derive(Clone, Debug, PartialEq, Default)]";
                let mut m = String::from("#![allow(unused, non_camel_case_types, clippy::all)]\nuse crate::common::*;\nuse o2o::traits::*;\n");
                m.push_str(&format!("{d} pub struct T {{ pub u: i32, pub a: i32, pub b: i32, pub c: i32 }}\n{d} pub struct Tf {{ pub u: i32, pub a: i32, pub b: i32, pub c: i32 }}\n"));
                let p_item = "#[from_ref(T)]\n#[into_existing(T)]\n#[try_from_ref(Tf, Er)]\n#[try_into_existing(Tf, Er)]\nstruct P { a: i32, #[map(~ + 1)] b: i32 }\n";
                let q_item = "#[from_ref(T)]\n#[into_existing(T)]\n#[try_from_ref(Tf, Er)]\n#[try_into_existing(Tf, Er)]\nstruct Q { #[map(c)] cc: i32 }\n";
                m.push_str(&format!("{d}\n#[derive(o2o::o2o)]\n{}", p_item.replace("struct P", "pub struct P").replace(" a: i32", " pub a: i32").replace(" b: i32", " pub b: i32")));
                m.push_str(&format!("{d}\n#[derive(o2o::o2o)]\n{}", q_item.replace("struct Q", "pub struct Q").replace(" cc: i32", " pub cc: i32")));
                let hint = if named { "" } else { " as {}" };
                let mut s_item = format!("#[map(T{hint})]\n#[into_existing(T{hint})]\n#[try_map(Tf{hint}, Er)]\n#[try_into_existing(Tf{hint}, Er)]\n");
                let plain = if named { "u: i32" } else { "#[map(u)] i32" };
                let parent_p = if named { "#[parent] p: P" } else { "#[parent] P" };
                let parent_q = if named { "#[parent] q: Q" } else { "#[parent] Q" };
                let mut members = vec![];
                if plain_first {
                    members.push(plain);
                }
                members.push(parent_p);
                if two_parents {
                    members.push(parent_q);
                }
                if !plain_first {
                    members.push(plain);
                }
                if named {
                    s_item.push_str(&format!("struct S {{ {} }}\n", members.join(", ")));
                } else {
                    s_item.push_str(&format!("struct S({});\n", members.join(", ")));
                }
                m.push_str(&format!("{d}\n#[derive(o2o::o2o)]\n{}", s_item));
                // test body: T{u,a,b,c} <-> S{u, p: P{a, b(+1)}, q: Q{cc}}
                let s_val = |u: i64, a: i64, b: i64, c: i64| {
                    let mut parts: Vec<String> = vec![];
                    let pu = if named { format!("u: {}", u) } else { format!("{}", u) };
                    let pp = if named { format!("p: P {{ a: {}, b: {} }}", a, b) } else { format!("P {{ a: {}, b: {} }}", a, b) };
                    let pq = if named { format!("q: Q {{ cc: {} }}", c) } else { format!("Q {{ cc: {} }}", c) };
                    if plain_first {
                        parts.push(pu.clone());
                    }
                    parts.push(pp);
                    if two_parents {
                        parts.push(pq);
                    }
                    if !plain_first {
                        parts.push(pu);
                    }
                    if named { format!("S {{ {} }}", parts.join(", ")) } else { format!("S({})", parts.join(", ")) }
                };
                m.push_str("pub fn run(r: &mut Rec) {\n");
                for fallible in [false, true] {
                    let tn = if fallible { "Tf" } else { "T" };
                    let f = if fallible { "try_" } else { "" };
                    let wrap = |e: String| if fallible { format!("Ok::<_, Er>({})", e) } else { e };
                    let es = s_val(10, 20, 31, 40);
                    if fallible {
                        m.push_str(&format!("  {{ let t = {tn} {{ u: 10, a: 20, b: 30, c: 40 }}; r.eq(\"{f}from_owned/0\", &<S as TryFrom<{tn}>>::try_from(t.clone()), &{e}); r.eq(\"{f}from_ref/0\", &<S as TryFrom<&{tn}>>::try_from(&t), &{e}); }}\n", e = wrap(es.clone())));
                    } else {
                        m.push_str(&format!("  {{ let t = {tn} {{ u: 10, a: 20, b: 30, c: 40 }}; r.eq(\"from_owned/0\", &<S as From<{tn}>>::from(t.clone()), &{e}); r.eq(\"from_ref/0\", &<S as From<&{tn}>>::from(&t), &{e}); }}\n", e = es));
                    }
                    let sl = s_val(1, 2, 3, 4);
                    // Into: the counterpart starts from Default (c stays 0 without the second parent)
                    let et = format!("{tn} {{ u: 1, a: 2, b: 4, c: {} }}", if two_parents { 4 } else { 0 });
                    let ee = format!("{tn} {{ u: 1, a: 2, b: 4, c: {} }}", if two_parents { 4 } else { 904 });
                    let pre = format!("{tn} {{ u: 901, a: 902, b: 903, c: 904 }}");
                    if fallible {
                        m.push_str(&format!("  {{ let s = {sl}; r.eq(\"{f}owned_into/0\", &<S as TryInto<{tn}>>::try_into(s.clone()), &{e}); r.eq(\"{f}ref_into/0\", &<&S as TryInto<{tn}>>::try_into(&s), &{e}); }}\n", e = wrap(et.clone())));
                        m.push_str(&format!("  {{ let s = {sl}; let mut o1 = {pre}; let r1 = <S as TryIntoExisting<{tn}>>::try_into_existing(s.clone(), &mut o1); r.eq(\"{f}owned_into_existing/0\", &r1.map(|_| o1), &{e}); let mut o2 = {pre}; let r2 = <&S as TryIntoExisting<{tn}>>::try_into_existing(&s, &mut o2); r.eq(\"{f}ref_into_existing/0\", &r2.map(|_| o2), &{e}); }}\n", e = wrap(ee.clone())));
                    } else {
                        m.push_str(&format!("  {{ let s = {sl}; r.eq(\"owned_into/0\", &<S as Into<{tn}>>::into(s.clone()), &{e}); r.eq(\"ref_into/0\", &<&S as Into<{tn}>>::into(&s), &{e}); }}\n", e = et));
                        m.push_str(&format!("  {{ let s = {sl}; let mut o1 = {pre}; <S as IntoExisting<{tn}>>::into_existing(s.clone(), &mut o1); r.eq(\"owned_into_existing/0\", &o1, &{e}); let mut o2 = {pre}; <&S as IntoExisting<{tn}>>::into_existing(&s, &mut o2); r.eq(\"ref_into_existing/0\", &o2, &{e}); }}\n", e = ee));
                    }
                }
                m.push_str("}\n");
                let tags = vec![format!("bare-parent"), format!("shape={}", if named { "named" } else { "tuple" }), format!("parents={}", if two_parents { 2 } else { 1 }), format!("plain_first={}", plain_first)];
                v.push((m, vec![s_item, p_item.to_string(), q_item.to_string()], format!("{}/{}/{}", named, two_parents, plain_first), tags));
            }
        }
    }
    v
}

/// nested structs of the OTHER kind than the root (`#[child_parents(1: N as {})]` under a tuple root, `p: N as ()` under a
/// named root), with and without a ghost addressed into the nested struct (seed C17-07: the root's hint used for a nested
/// level).  8 fixed layouts.
pub fn mixed_kind_modules() -> Vec<(String, Vec<String>, Vec<String>)> {
    let mut v = vec![];
    let d = "#[derive(Clone, Debug, PartialEq, Default)]";
    for (root_tuple, cross) in [(true, false), (false, false), (true, true), (false, true)] {
        // cross: the deriving struct is of the other kind than the root counterpart (root hint `as ()` / `as {}`)
        for ghost in [false, true] {
            for child_first in [false, true] {
                let s_tuple = root_tuple != cross;
                let mut m = String::from("#![allow(unused, non_camel_case_types, clippy::all)]\nuse crate::common::*;\nuse o2o::traits::*;\n");
                // nested struct N is named under a tuple root and positional under a named root
                let (n_def, n_lit): (String, Box<dyn Fn(i64, i64) -> String>) = if root_tuple {
                    (format!("{d} pub struct N {{ pub x: i32{} }}", if ghost { ", pub g: i32" } else { "" }), Box::new(move |x, g| if ghost { format!("N {{ x: {}, g: {} }}", x, g) } else { format!("N {{ x: {} }}", x) }))
                } else {
                    (format!("{d} pub struct N(pub i32{});", if ghost { ", pub i32" } else { "" }), Box::new(move |x, g| if ghost { format!("N({}, {})", x, g) } else { format!("N({})", x) }))
                };
                m.push_str(&n_def);
                m.push('\n');
                // root: T(i32, N) / T(N, i32)  or  T { a, p } (field order is irrelevant for named)
                let t_lit = |t: &str, a: i64, n: String| if root_tuple { if child_first { format!("{}({}, {})", t, n, a) } else { format!("{}({}, {})", t, a, n) } } else { format!("{} {{ a: {}, p: {} }}", t, a, n) };
                for t in ["T", "Tf"] {
                    if root_tuple {
                        m.push_str(&format!("{d} pub struct {}({});\n", t, if child_first { "pub N, pub i32" } else { "pub i32, pub N" }));
                    } else {
                        m.push_str(&format!("{d} pub struct {} {{ pub a: i32, pub p: N }}\n", t));
                    }
                }
                let (ci, ai) = if child_first { (0, 1) } else { (1, 0) };
                let h = if !cross { "" } else if root_tuple { " as ()" } else { " as {}" };
                let mut item = format!("#[map(T{h})]\n#[into_existing(T{h})]\n#[try_map(Tf{h}, Er)]\n#[try_into_existing(Tf{h}, Er)]\n");
                // where the two members go in the counterpart
                let (a_tgt, child_path, b_tgt) = if root_tuple { (ai.to_string(), ci.to_string(), "x".to_string()) } else { ("a".to_string(), "p".to_string(), "0".to_string()) };
                item.push_str(&format!("#[child_parents({}: N as {})]\n", child_path, if root_tuple { "{}" } else { "()" }));
                if ghost {
                    item.push_str(&format!("#[ghosts({}@{}: {{ 7 }})]\n", child_path, if root_tuple { "g" } else { "1" }));
                }
                let (a, b) = if s_tuple {
                    (format!("#[map({})] i32", a_tgt), format!("#[child({})] #[map({})] i32", child_path, b_tgt))
                } else {
                    (format!("#[map({})] pub a: i32", a_tgt), format!("#[child({})] #[map({})] pub b: i32", child_path, b_tgt))
                };
                let members = if child_first { format!("{}, {}", b, a) } else { format!("{}, {}", a, b) };
                item.push_str(&if s_tuple { format!("pub struct S({});\n", members) } else { format!("pub struct S {{ {} }}\n", members) });
                m.push_str(&format!("{d}\n#[derive(o2o::o2o)]\n{}", item));
                let s_lit = |a: i64, b: i64| if s_tuple { if child_first { format!("S({}, {})", b, a) } else { format!("S({}, {})", a, b) } } else { format!("S {{ a: {}, b: {} }}", a, b) };
                m.push_str("pub fn run(r: &mut Rec) {\n");
                for (tn, fallible) in [("T", false), ("Tf", true)] {
                    let f = if fallible { "try_" } else { "" };
                    let wrap = |e: String| if fallible { format!("Ok::<_, Er>({})", e) } else { e };
                    let tv = t_lit(tn, 10, n_lit(20, 99));
                    let es = wrap(s_lit(10, 20));
                    let et = t_lit(tn, 1, n_lit(2, 7));
                    let pre = t_lit(tn, 900, n_lit(901, 902));
                    // IntoExisting leaves a nested ghost slot alone only if there is no ghosts entry for it
                    if fallible {
                        m.push_str(&format!("  {{ let t = {tv}; r.eq(\"{f}from_owned\", &<S as TryFrom<{tn}>>::try_from(t.clone()), &{es}); r.eq(\"{f}from_ref\", &<S as TryFrom<&{tn}>>::try_from(&t), &{es}); }}\n"));
                        m.push_str(&format!("  {{ let s = {sl}; r.eq(\"{f}owned_into\", &<S as TryInto<{tn}>>::try_into(s.clone()), &{e}); r.eq(\"{f}ref_into\", &<&S as TryInto<{tn}>>::try_into(&s), &{e}); let mut o1 = {pre}; let r1 = <S as TryIntoExisting<{tn}>>::try_into_existing(s.clone(), &mut o1); r.eq(\"{f}owned_into_existing\", &r1.map(|_| o1), &{e}); let mut o2 = {pre}; let r2 = <&S as TryIntoExisting<{tn}>>::try_into_existing(&s, &mut o2); r.eq(\"{f}ref_into_existing\", &r2.map(|_| o2), &{e}); }}\n", sl = s_lit(1, 2), e = wrap(et.clone())));
                    } else {
                        m.push_str(&format!("  {{ let t = {tv}; r.eq(\"from_owned\", &<S as From<{tn}>>::from(t.clone()), &{es}); r.eq(\"from_ref\", &<S as From<&{tn}>>::from(&t), &{es}); }}\n"));
                        m.push_str(&format!("  {{ let s = {sl}; r.eq(\"owned_into\", &<S as Into<{tn}>>::into(s.clone()), &{et}); r.eq(\"ref_into\", &<&S as Into<{tn}>>::into(&s), &{et}); let mut o1 = {pre}; <S as IntoExisting<{tn}>>::into_existing(s.clone(), &mut o1); r.eq(\"owned_into_existing\", &o1, &{et}); let mut o2 = {pre}; <&S as IntoExisting<{tn}>>::into_existing(&s, &mut o2); r.eq(\"ref_into_existing\", &o2, &{et}); }}\n", sl = s_lit(1, 2)));
                    }
                }
                m.push_str("}\n");
                v.push((m, vec![item], vec!["mixed-kind".to_string(), format!("root={}", if root_tuple { "tuple" } else { "named" }), format!("ghost={}", ghost), format!("child_first={}", child_first), format!("cross={}", cross)]));
            }
        }
    }
    v
}

/// two nesting levels of independently chosen kind (seed C07-09): root T, nested N (in T) and M (in N) are each a named
/// or a tuple struct, the deriving struct is of the root's kind or of the other one (root hint), one member per struct
/// in every declaration order; every nested struct carries its explicit kind hint in #[child_parents].  Tuple structs
/// of the counterpart list their fields in the order the flat struct reaches them (so KF-C03-01 is not involved).
pub fn mixed_kind2_modules() -> Vec<(String, Vec<String>, Vec<String>)> {
    let mut v = vec![];
    let d = "#[derive(Clone, Debug, PartialEq, Default)]";
    let perms: [[usize; 3]; 6] = [[0, 1, 2], [0, 2, 1], [1, 0, 2], [1, 2, 0], [2, 0, 1], [2, 1, 0]];
    for kinds in 0..8u32 {
        let (k0, k1, k2) = (kinds & 1 != 0, kinds & 2 != 0, kinds & 4 != 0); // true = tuple
        for (cross, implicit) in [(false, false), (true, false), (false, true), (true, true)] {
            let s_tuple = k0 != cross;
            // implicit: a nested struct of the deriving struct's own kind carries NO hint in #[child_parents] (an entry
            // without hint means "same kind as the flat struct", whatever the root hint says - seed C03-11)
            if implicit && k1 != s_tuple && k2 != s_tuple {
                continue; // nothing to leave out
            }
            for perm in perms {
                // perm[i] = which member (0 = a root, 1 = b in N, 2 = c in M) is declared i-th
                let pos = |m: usize| perm.iter().position(|x| *x == m).unwrap();
                let a_first = pos(0) < pos(1).min(pos(2));
                let x_first = pos(1) < pos(2);
                let hint = |t: bool| if implicit && t == s_tuple { "" } else if t { "as ()" } else { "as {}" };
                // designators
                let (a_tgt, n_seg) = if k0 { (if a_first { "0" } else { "1" }, if a_first { "1" } else { "0" }) } else { ("a", "p") };
                let (x_tgt, m_seg) = if k1 { (if x_first { "0" } else { "1" }, if x_first { "1" } else { "0" }) } else { ("x", "q") };
                let y_tgt = if k2 { "0" } else { "y" };
                let p1 = n_seg.to_string();
                let p2 = format!("{} .{}", n_seg, m_seg);
                let mut m = String::from("#![allow(unused, non_camel_case_types, clippy::all)]\nuse crate::common::*;\nuse o2o::traits::*;\n");
                let lit = |ty: &str, tuple: bool, first: (&str, String), second: (&str, String), swap: bool| {
                    let (f, g) = if swap { (second, first) } else { (first, second) };
                    if tuple { format!("{}({}, {})", ty, f.1, g.1) } else { format!("{} {{ {}: {}, {}: {} }}", ty, f.0, f.1, g.0, g.1) }
                };
                let def = |ty: &str, tuple: bool, first: (&str, &str), second: (&str, &str), swap: bool| {
                    let (f, g) = if swap { (second, first) } else { (first, second) };
                    if tuple { format!("{d} pub struct {}(pub {}, pub {});\n", ty, f.1, g.1) } else { format!("{d} pub struct {} {{ pub {}: {}, pub {}: {} }}\n", ty, f.0, f.1, g.0, g.1) }
                };
                m.push_str(&if k2 { format!("{d} pub struct M(pub i32);\n") } else { format!("{d} pub struct M {{ pub y: i32 }}\n") });
                m.push_str(&def("N", k1, ("x", "i32"), ("q", "M"), !x_first));
                for t in ["T", "Tf"] {
                    m.push_str(&def(t, k0, ("a", "i32"), ("p", "N"), !a_first));
                }
                let m_lit = |y: i64| if k2 { format!("M({})", y) } else { format!("M {{ y: {} }}", y) };
                let t_lit = |t: &str, a: i64, x: i64, y: i64| lit(t, k0, ("a", a.to_string()), ("p", lit("N", k1, ("x", x.to_string()), ("q", m_lit(y)), !x_first)), !a_first);
                let h = if cross { format!(" {}", if k0 { "as ()" } else { "as {}" }) } else { String::new() };
                let mut item = format!("#[map(T{h})]\n#[into_existing(T{h})]\n#[try_map(Tf{h}, Er)]\n#[try_into_existing(Tf{h}, Er)]\n");
                item.push_str(&format!("#[child_parents({}: N {}, {}: M {})]\n", p1, hint(k1), p2, hint(k2)));
                let decl = |mi: usize| {
                    let (nm, attrs) = match mi {
                        0 => ("a", format!("#[map({})]", a_tgt)),
                        1 => ("b", format!("#[child({})] #[map({})]", p1, x_tgt)),
                        _ => ("c", format!("#[child({})] #[map({})]", p2, y_tgt)),
                    };
                    if s_tuple { format!("{} i32", attrs) } else { format!("{} pub {}: i32", attrs, nm) }
                };
                let members = perm.iter().map(|mi| decl(*mi)).collect::<Vec<_>>().join(", ");
                item.push_str(&if s_tuple { format!("pub struct S({});\n", members) } else { format!("pub struct S {{ {} }}\n", members) });
                m.push_str(&format!("{d}\n#[derive(o2o::o2o)]\n{}", item));
                let s_lit = |vals: [i64; 3]| {
                    if s_tuple {
                        format!("S({})", perm.iter().map(|mi| vals[*mi].to_string()).collect::<Vec<_>>().join(", "))
                    } else {
                        format!("S {{ a: {}, b: {}, c: {} }}", vals[0], vals[1], vals[2])
                    }
                };
                m.push_str("pub fn run(r: &mut Rec) {\n");
                for (tn, fallible) in [("T", false), ("Tf", true)] {
                    let f = if fallible { "try_" } else { "" };
                    let wrap = |e: String| if fallible { format!("Ok::<_, Er>({})", e) } else { e };
                    let tv = t_lit(tn, 10, 20, 30);
                    let es = wrap(s_lit([10, 20, 30]));
                    let et = t_lit(tn, 1, 2, 3);
                    let pre = t_lit(tn, 900, 901, 902);
                    if fallible {
                        m.push_str(&format!("  {{ let t = {tv}; r.eq(\"{f}from_owned\", &<S as TryFrom<{tn}>>::try_from(t.clone()), &{es}); r.eq(\"{f}from_ref\", &<S as TryFrom<&{tn}>>::try_from(&t), &{es}); }}\n"));
                        m.push_str(&format!("  {{ let s = {sl}; r.eq(\"{f}owned_into\", &<S as TryInto<{tn}>>::try_into(s.clone()), &{e}); r.eq(\"{f}ref_into\", &<&S as TryInto<{tn}>>::try_into(&s), &{e}); let mut o1 = {pre}; let r1 = <S as TryIntoExisting<{tn}>>::try_into_existing(s.clone(), &mut o1); r.eq(\"{f}owned_into_existing\", &r1.map(|_| o1), &{e}); let mut o2 = {pre}; let r2 = <&S as TryIntoExisting<{tn}>>::try_into_existing(&s, &mut o2); r.eq(\"{f}ref_into_existing\", &r2.map(|_| o2), &{e}); }}\n", sl = s_lit([1, 2, 3]), e = wrap(et.clone())));
                    } else {
                        m.push_str(&format!("  {{ let t = {tv}; r.eq(\"from_owned\", &<S as From<{tn}>>::from(t.clone()), &{es}); r.eq(\"from_ref\", &<S as From<&{tn}>>::from(&t), &{es}); }}\n"));
                        m.push_str(&format!("  {{ let s = {sl}; r.eq(\"owned_into\", &<S as Into<{tn}>>::into(s.clone()), &{et}); r.eq(\"ref_into\", &<&S as Into<{tn}>>::into(&s), &{et}); let mut o1 = {pre}; <S as IntoExisting<{tn}>>::into_existing(s.clone(), &mut o1); r.eq(\"owned_into_existing\", &o1, &{et}); let mut o2 = {pre}; <&S as IntoExisting<{tn}>>::into_existing(&s, &mut o2); r.eq(\"ref_into_existing\", &o2, &{et}); }}\n", sl = s_lit([1, 2, 3])));
                    }
                }
                m.push_str("}\n");
                let kn = |t: bool| if t { "tuple" } else { "named" };
                v.push((m, vec![item], vec!["mixed-kind-2".to_string(), format!("kinds={}/{}/{}", kn(k0), kn(k1), kn(k2)), format!("cross={}", cross), format!("implicit-hints={}", implicit), format!("order={:?}", perm)]));
            }
        }
    }
    v
}

pub fn collect(tier: &str, caps: &Caps, rep: &Report) -> Vec<BItem> {
    let items: Mutex<Vec<BItem>> = Mutex::new(vec![]);
    let (co, cb) = child_opts(tier);
    let st = explore(
        |ctx| gen_child(ctx, &co),
        cb,
        caps,
        |choices, c| {
            items.lock().unwrap().push(BItem { space: "child".into(), choices: choices.to_vec(), tags: c.tags.clone(), inputs: vec![c.item("S", true).render()], module: c.render_module(), nontrivial: true });
        },
    );
    rep.add_stats("child", &cb.map(|b| format!("dev({})", b)).unwrap_or("full".into()), &st);
    eprintln!("  space child: {} choice vectors, {} pruned", st.leaves, st.pruned);
    let co = child_deep_opts(tier);
    let st = explore(
        |ctx| gen_child(ctx, &co),
        None,
        caps,
        |choices, c| {
            items.lock().unwrap().push(BItem { space: "child-deep".into(), choices: choices.to_vec(), tags: c.tags.clone(), inputs: vec![c.item("S", true).render()], module: c.render_module(), nontrivial: true });
        },
    );
    rep.add_stats("child-deep", "full", &st);
    eprintln!("  space child-deep: {} choice vectors, {} pruned", st.leaves, st.pruned);
    {
        // From + IntoExisting only, no #[child_parents] (seed C03-10): ghosts addressed by child path are still written
        let co = FlatOpts { max_members: 3, max_ghosts: 2, max_depth: if tier == "quick" { 2 } else { 3 }, existing_only: true, ..FlatOpts::DEF };
        let cb = if tier == "quick" { Some(4) } else { Some(6) };
        let st = explore(
            |ctx| gen_child(ctx, &co),
            cb,
            caps,
            |choices, c| {
                items.lock().unwrap().push(BItem { space: "child-existing-only".into(), choices: choices.to_vec(), tags: c.tags.clone(), inputs: vec![c.item("S", true).render()], module: c.render_module(), nontrivial: true });
            },
        );
        rep.add_stats("child-existing-only", &cb.map(|b| format!("dev({})", b)).unwrap_or("full".into()), &st);
        eprintln!("  space child-existing-only: {} choice vectors, {} pruned", st.leaves, st.pruned);
    }
    let (co, cb) = child_pos_opts(tier);
    let st = explore(
        |ctx| gen_child(ctx, &co),
        cb,
        caps,
        |choices, c| {
            items.lock().unwrap().push(BItem { space: "child-pos".into(), choices: choices.to_vec(), tags: c.tags.clone(), inputs: vec![c.item("S", true).render()], module: c.render_module(), nontrivial: true });
        },
    );
    rep.add_stats("child-pos", &cb.map(|b| format!("dev({})", b)).unwrap_or("full".into()), &st);
    eprintln!("  space child-pos: {} choice vectors, {} pruned", st.leaves, st.pruned);
    let pl = if tier == "quick" { 3 } else { 4 };
    let pb = if tier == "quick" { Some(5) } else { Some(7) };
    let st = explore(
        |ctx| gen_parent(ctx, pl),
        pb,
        caps,
        |choices, c| {
            items.lock().unwrap().push(BItem { space: "parent-param".into(), choices: choices.to_vec(), tags: c.tags.clone(), inputs: vec![c.item("S", true).render()], module: c.render_module(), nontrivial: true });
        },
    );
    rep.add_stats("parent-param", &pb.map(|b| format!("dev({})", b)).unwrap_or("full".into()), &st);
    eprintln!("  space parent-param: {} choice vectors, {} pruned", st.leaves, st.pruned);
    let mut v = items.into_inner().unwrap();
    for (i, (module, inputs, _key, tags)) in bare_parent_modules().into_iter().enumerate() {
        v.push(BItem { space: "parent-bare".into(), choices: vec![i as u32], tags, inputs, module, nontrivial: true });
    }
    rep.add_stats("parent-bare", "full (8 fixed layouts)", &crate::explore::ExploreStats { leaves: 8, transitions: 8, ..Default::default() });
    for (i, (module, inputs, tags)) in mixed_kind_modules().into_iter().enumerate() {
        v.push(BItem { space: "mixed-kind".into(), choices: vec![i as u32], tags, inputs, module, nontrivial: true });
    }
    rep.add_stats("mixed-kind", "full (16 fixed layouts)", &crate::explore::ExploreStats { leaves: 16, transitions: 16, ..Default::default() });
    let mk2 = mixed_kind2_modules();
    let n2 = mk2.len() as u64;
    for (i, (module, inputs, tags)) in mk2.into_iter().enumerate() {
        v.push(BItem { space: "mixed-kind-2".into(), choices: vec![i as u32], tags, inputs, module, nontrivial: true });
    }
    rep.add_stats("mixed-kind-2", "full (8 kind triples x 2 deriving kinds x explicit / implicit nested hints x 6 member orders)", &crate::explore::ExploreStats { leaves: n2, transitions: n2, ..Default::default() });
    v
}

pub fn run(tier: &str) -> i32 {
    let rep = Report::new("C03", tier, "model_checking");
    rep.set_rule("child direction (named structs, and the positional twin `child-pos` with tuple structs and index paths): every prefix-closed subset of the path universe {p, pq, p.q, p.qr, p.q.r, r} (sibling names that are string prefixes of each other; depth <= 3) x 2-4 flat members assigned to root or any node x leaf instruction {none, rename, ~expr} x 0-2 struct-level ghosts addressed by child path (incl. ghost-only nodes) x EVERY permutation of the flat members; `child-existing-only`: From + IntoExisting only, without #[child_parents], 0-2 ghosts addressed by child path; `child-deep`: the fixed node set {p, p.q, p.qr, p.q.r} x every assignment of 2-3 (thorough 2-4) plain members to the five structs in every order, exhaustively; mirror direction: parameterised #[parent(..)] with 1-4 leaves at nesting depth 0-2 ([parent(..)] name: Type), renamed and/or with expression, every permutation, parent member first or last; bare #[parent]: 8 fixed layouts (named/tuple, 1-2 parents, order) whose parent types derive their own conversions. Each case is compiled through the real derive by rustc and executed: all 12 kinds x 2 value assignments; From result, nested Into literal and mutated pre-existing IntoExisting value compared leaf by leaf with the model. A nested struct built twice is a duplicate-field compile error, one split in two loses members. states = distinct test modules");
    rep.assume("leaves are i32; a case is either named all the way down or positional all the way down (space child-pos: tuple structs, index paths written `1 .0`, designated positions = members, nested structs, ghosts); exploration is deviation-bounded (bound in `spaces`)");
    let caps = Caps::from_env(if tier == "quick" { 200.0 } else { 1500.0 });
    let items = collect(tier, &caps, &rep);
    if let Err(e) = run_items("C03", items, &rep, BOpts { no_std: false, features: "", name: "c03".into(), keep: std::env::var("VERIF_KEEP").is_ok() }) {
        eprintln!("MACHINERY-ERROR: {}", e);
        return 2;
    }
    rep.finish()
}

pub fn replay(f: &Failure) -> i32 {
    let mut obs = vec![];
    for round in 0..2 {
        let item = match f.space.as_str() {
            "child" | "child-pos" | "child-deep" | "child-existing-only" => {
                let mut found = None;
                for t in ["quick", "thorough"] {
                    let (o, _) = if f.space == "child-existing-only" { (FlatOpts { max_members: 3, max_ghosts: 2, max_depth: if t == "quick" { 2 } else { 3 }, existing_only: true, ..FlatOpts::DEF }, None) } else if f.space == "child" { child_opts(t) } else if f.space == "child-deep" { (child_deep_opts(t), None) } else { child_pos_opts(t) };
                    let (c, full) = replay_one(|ctx| gen_child(ctx, &o), &f.choices);
                    if let Some(c) = c {
                        if full == f.choices && c.item("S", true).render() == f.input {
                            found = Some(BItem { space: f.space.clone(), choices: full, tags: c.tags.clone(), inputs: vec![f.input.clone()], module: c.render_module(), nontrivial: true });
                            break;
                        }
                    }
                }
                found
            }
            "parent-param" => {
                let mut found = None;
                for pl in [3, 4] {
                    let (c, full) = replay_one(|ctx| gen_parent(ctx, pl), &f.choices);
                    if let Some(c) = c {
                        if full == f.choices && c.item("S", true).render() == f.input {
                            found = Some(BItem { space: f.space.clone(), choices: full, tags: c.tags.clone(), inputs: vec![f.input.clone()], module: c.render_module(), nontrivial: true });
                            break;
                        }
                    }
                }
                found
            }
            "mixed-kind-2" => mixed_kind2_modules().into_iter().enumerate().find(|(i, _)| vec![*i as u32] == f.choices).map(|(_, (module, inputs, tags))| BItem { space: f.space.clone(), choices: f.choices.clone(), tags, inputs, module, nontrivial: true }),
            "mixed-kind" => mixed_kind_modules().into_iter().enumerate().find(|(i, _)| vec![*i as u32] == f.choices).map(|(_, (module, inputs, tags))| BItem { space: f.space.clone(), choices: f.choices.clone(), tags, inputs, module, nontrivial: true }),
            _ => bare_parent_modules().into_iter().enumerate().find(|(i, _)| vec![*i as u32] == f.choices).map(|(_, (module, inputs, _, tags))| BItem { space: f.space.clone(), choices: f.choices.clone(), tags, inputs, module, nontrivial: true }),
        };
        let item = match item {
            Some(i) => i,
            None => {
                eprintln!("MACHINERY-ERROR: cannot re-render {} {:?}", f.space, f.choices);
                return 2;
            }
        };
        let rep = Report::new("C03", "quick", "model_checking");
        if let Err(e) = run_items("C03", vec![item], &rep, BOpts { no_std: false, features: "", name: format!("c03-replay{}", round), keep: false }) {
            eprintln!("MACHINERY-ERROR: {}", e);
            return 2;
        }
        obs.push(rep.failures.lock().unwrap().iter().map(|x| (x.kind.clone(), x.detail.clone())).collect::<Vec<_>>());
    }
    if obs[0] != obs[1] {
        eprintln!("MACHINERY-ERROR: non-deterministic replay");
        return 2;
    }
    if obs[0].is_empty() {
        println!("replay: no failure on this tree");
        return 0;
    }
    for (k, d) in &obs[0] {
        println!("REPLAYED property=C03 kind={} detail={}", k, d);
    }
    println!("input:\n{}", f.input);
    1
}
