//! C10 - `@` and `~` are substituted everywhere; all other user tokens pass through.

use super::{fail, replay_space, run_space, Space};
use crate::explore::{Caps, Ctx};
use crate::ir::{analyse, OutIR, TraitK};
use crate::report::{Failure, Report};
use crate::xp::{atoms, canon, expand_tokens, trunc, Xp};
use proc_macro2::{Delimiter, Group, TokenStream, TokenTree};
use serde_json::json;

#[derive(Clone, Debug)]
pub enum E {
    Atom(&'static str),
    Group(Delimiter, Vec<E>),
}

const ATOMS: &[&str] = &["~", "@", "zq7", "7", "\"~@\"", "'~'", "b'@'", "'a", "+", "&&", "..=", "<<=", "->", "|x|", "m!", ".", "::<", ","];
const DELIMS: &[Delimiter] = &[Delimiter::Parenthesis, Delimiter::Bracket, Delimiter::Brace, Delimiter::None];

fn to_ts(es: &[E]) -> TokenStream {
    let mut out = TokenStream::new();
    for e in es {
        match e {
            E::Atom(a) => out.extend(a.parse::<TokenStream>().unwrap()),
            E::Group(d, inner) => out.extend(std::iter::once(TokenTree::Group(Group::new(*d, to_ts(inner))))),
        }
    }
    out
}

fn to_text(es: &[E]) -> String {
    es.iter()
        .map(|e| match e {
            E::Atom(a) => a.to_string(),
            E::Group(d, inner) => {
                let (o, c) = match d {
                    Delimiter::Parenthesis => ("(", ")"),
                    Delimiter::Bracket => ("[", "]"),
                    Delimiter::Brace => ("{", "}"),
                    Delimiter::None => ("<none>", "</none>"),
                };
                format!("{} {} {}", o, to_text(inner), c)
            }
        })
        .collect::<Vec<_>>()
        .join(" ")
}

/// the independent substitution: flattened atoms of the expression with `@` / `~` replaced
fn substitute(es: &[E], at: &[String], tilde: &[String], out: &mut Vec<String>) {
    for e in es {
        match e {
            E::Atom("~") => out.extend(tilde.iter().cloned()),
            E::Atom("@") => out.extend(at.iter().cloned()),
            E::Atom(a) => out.extend(atoms(&a.parse::<TokenStream>().unwrap())),
            E::Group(d, inner) => {
                let (o, c) = match d {
                    Delimiter::Parenthesis => ("(", ")"),
                    Delimiter::Bracket => ("[", "]"),
                    Delimiter::Brace => ("{", "}"),
                    Delimiter::None => ("", ""),
                };
                if !o.is_empty() {
                    out.push(o.into());
                }
                substitute(inner, at, tilde, out);
                if !c.is_empty() {
                    out.push(c.into());
                }
            }
        }
    }
}

fn contains_atom(es: &[E], a: &str) -> bool {
    es.iter().any(|e| match e {
        E::Atom(x) => *x == a,
        E::Group(_, i) => contains_atom(i, a),
    })
}

fn gen_seq(ctx: &mut Ctx, min_len: usize, max_len: usize, depth: usize, inner_max: usize, tilde_ok: bool) -> Option<Vec<E>> {
    let len = min_len + ctx.choose(max_len + 1 - min_len);
    let mut v = vec![];
    for _ in 0..len {
        let n = ATOMS.len() + if depth > 0 { DELIMS.len() } else { 0 };
        let k = ctx.choose(n);
        if k < ATOMS.len() {
            if ATOMS[k] == "~" && !tilde_ok {
                return ctx.reject();
            }
            v.push(E::Atom(ATOMS[k]));
        } else {
            let inner = gen_seq(ctx, 0, inner_max, depth - 1, inner_max, tilde_ok)?;
            v.push(E::Group(DELIMS[k - ATOMS.len()], inner));
        }
    }
    Some(v)
}

/// what `@` / `~` stand for in the impls of one direction; None = the instruction does not apply (marker must be absent)
type Expect = Option<(&'static str, &'static str)>;

pub struct Pos {
    pub name: &'static str,
    /// host with the placeholder identifier __E__ where the expression goes
    pub host: &'static str,
    pub tilde_ok: bool,
    /// the expression text is prefixed by this braceless head (`~` / `@`) which is part of the expression
    pub head: Option<&'static str>,
    pub from: Expect,
    pub into: Expect,
    pub existing: Expect,
}

const STRUCT_TRAITS: &str = "#[map(T)]\n#[into_existing(T)]\n";

pub const POSITIONS: &[Pos] = &[
    Pos { name: "member-map", host: "#[map(T)]\n#[into_existing(T)]\nstruct S { #[map({ __E__ })] a: i32, b: i32 }", tilde_ok: true, head: None, from: Some(("value", "value . a")), into: Some(("self", "self . a")), existing: Some(("self", "self . a")) },
    Pos { name: "member-map-rename", host: "#[map(T)]\n#[into_existing(T)]\nstruct S { #[map(x, { __E__ })] a: i32, b: i32 }", tilde_ok: true, head: None, from: Some(("value", "value . x")), into: Some(("self", "self . a")), existing: Some(("self", "self . a")) },
    Pos { name: "member-from-only", host: "#[map(T)]\n#[into_existing(T)]\nstruct S { #[from({ __E__ })] a: i32, b: i32 }", tilde_ok: true, head: None, from: Some(("value", "value . a")), into: None, existing: None },
    Pos { name: "member-into-only", host: "#[map(T)]\n#[into_existing(T)]\nstruct S { #[into(x, { __E__ })] a: i32, b: i32 }", tilde_ok: true, head: None, from: None, into: Some(("self", "self . a")), existing: Some(("self", "self . a")) },
    Pos { name: "member-existing-only", host: "#[map(T)]\n#[into_existing(T)]\nstruct S { #[into_existing(x, { __E__ })] a: i32, b: i32 }", tilde_ok: true, head: None, from: None, into: None, existing: Some(("self", "self . a")) },
    Pos { name: "member-child", host: "#[map(T)]\n#[into_existing(T)]\n#[child_parents(p: P, p.q: Q)]\nstruct S { #[child(p.q)] #[map({ __E__ })] a: i32, b: i32 }", tilde_ok: true, head: None, from: Some(("value", "value . p . q . a")), into: Some(("self", "self . a")), existing: Some(("self", "self . a")) },
    Pos { name: "member-braceless-tilde", host: "#[map(T)]\n#[into_existing(T)]\nstruct S { #[map(~ __E__)] a: i32, b: i32 }", tilde_ok: true, head: Some("~"), from: Some(("value", "value . a")), into: Some(("self", "self . a")), existing: Some(("self", "self . a")) },
    Pos { name: "member-braceless-at", host: "#[map(T)]\n#[into_existing(T)]\nstruct S { #[map(x, @ __E__)] a: i32, b: i32 }", tilde_ok: true, head: Some("@"), from: Some(("value", "value . x")), into: Some(("self", "self . a")), existing: Some(("self", "self . a")) },
    Pos { name: "tuple-member", host: "#[map(T)]\n#[into_existing(T)]\nstruct S(i32, #[map({ __E__ })] i32);", tilde_ok: true, head: None, from: Some(("value", "value . 1")), into: Some(("self", "self . 1")), existing: Some(("self", "self . 1")) },
    Pos { name: "ghost", host: "#[map(T)]\n#[into_existing(T)]\nstruct S { #[ghost({ __E__ })] a: i32, b: i32 }", tilde_ok: false, head: None, from: Some(("value", "")), into: None, existing: None },
    Pos { name: "struct-ghosts", host: "#[map(T)]\n#[into_existing(T)]\n#[ghosts(g: { __E__ })]\nstruct S { a: i32, b: i32 }", tilde_ok: false, head: None, from: None, into: Some(("self", "")), existing: Some(("self", "")) },
    Pos { name: "vars", host: "#[map(T| vars(v: { __E__ }))]\n#[into_existing(T)]\nstruct S { a: i32, b: i32 }", tilde_ok: false, head: None, from: Some(("value", "")), into: Some(("self", "")), existing: None },
    Pos { name: "update", host: "#[from(T| ..{ __E__ })]\n#[into(T)]\n#[into_existing(T)]\nstruct S { a: i32, b: i32 }", tilde_ok: false, head: None, from: Some(("value", "")), into: None, existing: None },
    Pos { name: "return-into", host: "#[from(T)]\n#[into(T| return { __E__ })]\n#[into_existing(T)]\nstruct S { a: i32, b: i32 }", tilde_ok: false, head: None, from: None, into: Some(("self", "")), existing: None },
    Pos { name: "return-existing", host: "#[map(T)]\n#[into_existing(T| return { __E__ })]\nstruct S { a: i32, b: i32 }", tilde_ok: false, head: None, from: None, into: None, existing: Some(("self", "")) },
    Pos { name: "parent-nested", host: "#[map(T)]\n#[into_existing(T)]\nstruct S { #[parent([map({ __E__ })] pa, pb)] p: P, b: i32 }", tilde_ok: true, head: None, from: Some(("value", "value . pa")), into: Some(("self", "self . p . pa")), existing: Some(("self", "self . p . pa")) },
    Pos { name: "enum-default-case", host: "#[from(T| _ => { __E__ })]\n#[into(T)]\n#[ghosts(Y: { S::A })]\nenum S { A, B(i32) }", tilde_ok: false, head: None, from: Some(("value", "")), into: None, existing: None },
    Pos { name: "enum-ghosts", host: "#[map(T)]\n#[ghosts(Y: { __E__ })]\nenum S { A, B(i32) }", tilde_ok: false, head: None, from: Some(("value", "")), into: None, existing: None },
    Pos { name: "variant-expr-from", host: "#[map(T)]\nenum S { #[from(X, { __E__ })] A, B(i32) }", tilde_ok: false, head: None, from: Some(("value", "")), into: None, existing: None },
    Pos { name: "variant-expr-into", host: "#[map(T)]\nenum S { #[into({ __E__ })] A, B(i32) }", tilde_ok: false, head: None, from: None, into: Some(("self", "")), existing: None },
    Pos { name: "variant-ghost", host: "#[map(T)]\nenum S { A, #[ghost({ __E__ })] B(i32) }", tilde_ok: false, head: None, from: None, into: Some(("self", "")), existing: None },
    Pos { name: "variant-tuple-field", host: "#[map(T)]\nenum S { A, B(#[map({ __E__ })] i32) }", tilde_ok: true, head: None, from: Some(("value", "f0")), into: Some(("self", "f0")), existing: None },
    Pos { name: "variant-named-field", host: "#[map(T)]\nenum S { A, C { #[map(y, { __E__ })] x: i32 } }", tilde_ok: true, head: None, from: Some(("value", "y")), into: Some(("self", "x")), existing: None },
    // renames, index renames and child paths combined with an expression (seed C10-03: index rename + child path)
    Pos { name: "member-child-rename", host: "#[map(T)]\n#[into_existing(T)]\n#[child_parents(p: P, p.q: Q)]\nstruct S { #[child(p.q)] #[map(x, { __E__ })] a: i32, b: i32 }", tilde_ok: true, head: None, from: Some(("value", "value . p . q . x")), into: Some(("self", "self . a")), existing: Some(("self", "self . a")) },
    Pos { name: "tuple-member-index-rename", host: "#[map(T)]\n#[into_existing(T)]\nstruct S(#[map(1)] i32, #[map(0, { __E__ })] i32);", tilde_ok: true, head: None, from: Some(("value", "value . 0")), into: Some(("self", "self . 1")), existing: Some(("self", "self . 1")) },
    Pos { name: "tuple-child-index-rename", host: "#[map(T)]\n#[into_existing(T)]\n#[child_parents(1: P)]\nstruct S(i32, #[child(1)] #[map(0, { __E__ })] i32);", tilde_ok: true, head: None, from: Some(("value", "value . 1 . 0")), into: Some(("self", "self . 1")), existing: Some(("self", "self . 1")) },
    Pos { name: "variant-tuple-field-index", host: "#[map(T)]\nenum S { A, B(#[map(1, { __E__ })] i32, #[map(0)] i32) }", tilde_ok: true, head: None, from: Some(("value", "f1")), into: Some(("self", "f0")), existing: None },
    Pos { name: "variant-named-field-as-tuple", host: "#[map(T)]\nenum S { A, #[type_hint(as ())] C { #[map(0, { __E__ })] x: i32 } }", tilde_ok: true, head: None, from: Some(("value", "f0")), into: Some(("self", "x")), existing: None },
    Pos { name: "parent-nested-rename", host: "#[map(T)]\n#[into_existing(T)]\nstruct S { #[parent([map(zz, { __E__ })] pa, pb)] p: P, b: i32 }", tilde_ok: true, head: None, from: Some(("value", "value . zz")), into: Some(("self", "self . p . pa")), existing: Some(("self", "self . p . pa")) },
    Pos { name: "variant-ghosts", host: "#[map(T)]\nenum S { A, #[ghosts(g: { __E__ })] C { x: i32 } }", tilde_ok: false, head: None, from: None, into: Some(("self", "")), existing: None },
    // (round 8: an impl written in post-init form because of a bare #[parent]; a nested parent below the first level; a
    //  fallible member instruction)
    Pos { name: "member-next-to-bare-parent", host: "#[map(T)]\n#[into_existing(T)]\nstruct S { #[map({ __E__ })] a: i32, #[parent] p: P }", tilde_ok: true, head: None, from: Some(("value", "value . a")), into: Some(("self", "self . a")), existing: Some(("self", "self . a")) },
    Pos { name: "parent-nested-2", host: "#[map(T)]\n#[into_existing(T)]\nstruct S { #[parent(pb, [parent([map({ __E__ })] pa)] q: Q)] p: P, b: i32 }", tilde_ok: true, head: None, from: Some(("value", "value . pa")), into: Some(("self", "self . p . q . pa")), existing: Some(("self", "self . p . q . pa")) },
    Pos { name: "member-try_map", host: "#[try_map(T, Er)]\n#[try_into_existing(T, Er)]\nstruct S { #[try_map({ __E__ })] a: i32, b: i32 }", tilde_ok: true, head: None, from: Some(("value", "value . a")), into: Some(("self", "self . a")), existing: Some(("self", "self . a")) },
];

pub struct Subst {
    pub max_len: usize,
    pub depth: usize,
    pub inner_max: usize,
}

pub struct Case {
    pub pos: usize,
    pub expr: Vec<E>,
}

fn replace_placeholder(ts: TokenStream, with: &TokenStream) -> TokenStream {
    ts.into_iter()
        .flat_map(|t| match t {
            TokenTree::Ident(ref i) if i == "__E__" => with.clone().into_iter().collect::<Vec<_>>(),
            TokenTree::Group(g) => {
                let mut ng = Group::new(g.delimiter(), replace_placeholder(g.stream(), with));
                ng.set_span(g.span());
                vec![TokenTree::Group(ng)]
            }
            other => vec![other],
        })
        .collect()
}

impl Space for Subst {
    type Case = Case;
    fn name(&self) -> String {
        format!("subst(len<={},depth<={},inner<={})", self.max_len, self.depth, self.inner_max)
    }
    fn gen(&self, ctx: &mut Ctx) -> Option<Case> {
        let pos = ctx.choose(POSITIONS.len());
        let p = &POSITIONS[pos];
        let expr = gen_seq(ctx, 1, self.max_len, self.depth, self.inner_max, p.tilde_ok)?;
        // a leading brace group at top level is the DSL's expression delimiter in braceless positions
        if p.head.is_some() {
            if let Some(E::Group(Delimiter::Brace, _)) = expr.first() {
                // `~ { .. }` is fine: the head token comes first
            }
        }
        Some(Case { pos, expr })
    }
    fn check(&self, c: Case, choices: &[u32], rep: &Report) {
        check_case(&self.name(), &c, choices, rep)
    }
}

fn check_case(space: &str, c: &Case, choices: &[u32], rep: &Report) {
    let p = &POSITIONS[c.pos];
    let expr_text = to_text(&c.expr);
    let input_text = p.host.replace("__E__", &expr_text);
    let host_ts: TokenStream = p.host.parse().unwrap();
    let ts = replace_placeholder(host_ts, &to_ts(&c.expr));
    rep.eval(1);
    rep.states.add_of(&input_text);
    let tags = vec![format!("pos={}", p.name)];
    if contains_atom(&c.expr, "~") || contains_atom(&c.expr, "@") {
        rep.nontrivial.add_of(&input_text);
    }
    let out = match expand_tokens(ts) {
        Ok(Ok(o)) => o,
        Ok(Err(m)) => {
            rep.outputs.add_of(&m);
            rep.fail(fail(space, choices, &input_text, &tags, "rejected-valid-input", m.iter().skip(if m.len() > 1 { 1 } else { 0 }).cloned().collect::<Vec<_>>().join(" | ")));
            return;
        }
        Err(Xp::Panic { msg, loc }) => {
            rep.fail(fail(space, choices, &input_text, &tags, "panic", format!("{} @ {}", msg, loc.split(':').next().unwrap_or(""))));
            return;
        }
        Err(Xp::NotAnItem(e)) => {
            // the harness built an attribute the parser library refuses: not the subject's business
            rep.count("not_an_item", 1);
            let _ = e;
            return;
        }
        Err(_) => unreachable!(),
    };
    rep.validate(1);
    // per impl: split the output on top-level items through the parser when possible, else on `impl` boundaries
    let impls: Vec<(Option<TraitK>, String)> = match analyse(&out) {
        OutIR::Impls(v, _) => v.iter().map(|i| (TraitK::of_path(&i.trait_path), i.text.clone())).collect(),
        OutIR::Unparsable(_) => match crate::xp::split_impls(&out) {
            Some(v) => v
                .iter()
                .map(|t| {
                    let s = canon(t);
                    let k = if s.contains("TryFrom <") { None } else if s.contains(": : From <") { Some(TraitK::From) } else if s.contains(": : Into <") { Some(TraitK::Into) } else if s.contains("IntoExisting <") { Some(TraitK::IntoExisting) } else { None };
                    (k, s)
                })
                .collect(),
            None => vec![(None, canon(&out))],
        },
    };
    rep.outputs.add_of(&impls.len());
    let mut full = c.expr.clone();
    if let Some(h) = p.head {
        full.insert(0, E::Atom(if h == "~" { "~" } else { "@" }));
    }
    let has_marker = contains_atom(&full, "zq7");
    for (k, text) in &impls {
        let exp: Expect = match k {
            Some(TraitK::From) => p.from,
            Some(TraitK::Into) => p.into,
            Some(TraitK::IntoExisting) => p.existing,
            _ => continue,
        };
        let padded = format!(" {} ", text);
        match exp {
            Some((at, tilde)) => {
                let at_v: Vec<String> = at.split(' ').filter(|s| !s.is_empty()).map(|s| s.to_string()).collect();
                let tilde_v: Vec<String> = tilde.split(' ').filter(|s| !s.is_empty()).map(|s| s.to_string()).collect();
                let mut want = vec![];
                substitute(&full, &at_v, &tilde_v, &mut want);
                if want.is_empty() {
                    continue;
                }
                let needle = format!(" {} ", want.join(" "));
                if !padded.contains(&needle) {
                    let mut t = tags.clone();
                    t.push(format!("impl={:?}", k.unwrap()));
                    let mut f = fail(space, choices, &input_text, &t, "wrong-substitution", format!("{:?} impl does not contain the substituted expression", k.unwrap()));
                    f.expected = needle.trim().to_string();
                    f.observed = trunc(text, 700);
                    rep.fail(f);
                }
            }
            None => {
                if has_marker && padded.contains(" zq7 ") {
                    let mut t = tags.clone();
                    t.push(format!("impl={:?}", k.unwrap()));
                    let mut f = fail(space, choices, &input_text, &t, "leaked-expression", format!("{:?} impl contains tokens of an expression whose instruction does not apply to it", k.unwrap()));
                    f.observed = trunc(text, 700);
                    rep.fail(f);
                }
            }
        }
    }
    if rep.want_sample() && c.expr.len() >= 2 && contains_atom(&c.expr, "~") {
        rep.sample(json!({"choices": choices, "position": p.name, "input": input_text, "expression": expr_text}));
    }
}

pub fn run(tier: &str) -> i32 {
    let rep = Report::new("C10", tier, "model_checking");
    rep.set_rule("every token tree over the alphabet {~, @, ident, int, \"~@\", '~', b'@', lifetime, +, &&, ..=, <<=, ->, |x|, m!, ., ::<, ,} with groups (), [], {}, None-delimited (built as real proc_macro2 groups), nested, up to the stated length/depth, in each of 33 accepting positions (member map / rename / from-only / into-only / into_existing-only / child path / braceless `~..` and `@..` forms / tuple member / ghost / struct ghosts / vars / update / return (into, into_existing) / nested [map] inside #[parent] / enum default case / enum ghosts / variant expression (from, into) / variant ghost / tuple and named payload fields / variant ghosts); an independent substitution over the flattened atom list (`@` -> value|self, `~` -> the documented field path for that position and direction) must occur as a contiguous subsequence of the flattened impl in every impl the instruction applies to, and a marker identifier must not occur in impls it does not apply to. states = distinct inputs; non-trivial = expressions containing ~ or @");
    rep.assume("`~` is only generated where the README allows it (member-level instructions); None-delimited groups are transparent; what `~` stands for per position is transcribed from README 'Inline expressions' and the C10 statement");
    let caps = Caps::from_env(if tier == "quick" { 120.0 } else { 1500.0 });
    if tier == "quick" {
        run_space(&Subst { max_len: 2, depth: 1, inner_max: 1 }, None, &caps, &rep);
        run_space(&Subst { max_len: 3, depth: 3, inner_max: 2 }, Some(4), &caps, &rep);
    } else {
        run_space(&Subst { max_len: 3, depth: 1, inner_max: 1 }, None, &caps, &rep);
        run_space(&Subst { max_len: 4, depth: 3, inner_max: 2 }, Some(6), &caps, &rep);
    }
    rep.finish()
}

pub fn replay(f: &Failure) -> i32 {
    let inner = f.space.trim_start_matches("subst(").trim_end_matches(')');
    let nums: Vec<usize> = inner.split(',').map(|x| x.split("<=").nth(1).unwrap().parse().unwrap()).collect();
    replay_space(&Subst { max_len: nums[0], depth: nums[1], inner_max: nums[2] }, f, "C10")
}
