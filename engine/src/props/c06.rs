//! C06 - impls for one counterpart type are independent of the other counterparts (metamorphic: joint vs projected).

use super::fail;
use crate::corpus;
use crate::explore::Caps;
use crate::feat::FCase;
use crate::item::Item;
use crate::meta::{expand_item, Out};
use crate::report::{Failure, Report};
use serde_json::json;

/// delete every trait instruction for a counterpart other than `keep` and every instruction dedicated to another one
pub fn project(item: &Item, keep: &str, others: &[&str]) -> Item {
    let mut out = item.clone();
    let is_other_cp = |body: &str| others.iter().any(|o| body == *o || body.starts_with(&format!("{} ", o)) || body.starts_with(&format!("{},", o)) || body.starts_with(&format!("{}|", o)));
    let mut first = true;
    for l in out.attr_lists_mut() {
        let type_level = first;
        first = false;
        l.retain(|i| {
            if let Some(d) = &i.ded {
                if d != keep {
                    return false;
                }
            }
            if type_level && crate::model::appl(&i.name).is_some() && i.ded.is_none() && is_other_cp(&i.body) {
                return false;
            }
            true
        });
        // repair list forms
        for k in 0..l.len() {
            if l[k].form == crate::item::Form::Join && (k == 0 || l[k - 1].form == crate::item::Form::Bare) {
                l[k].form = crate::item::Form::O2o;
            }
        }
    }
    out
}

fn impls_for(e: &crate::meta::Expanded, cp: &str) -> Vec<String> {
    let mut v: Vec<String> = e
        .impls
        .iter()
        .filter(|i| {
            let a = i.trait_args.first().map(|s| s.as_str()).unwrap_or("");
            a == cp || a == format!("& {}", cp)
        })
        .map(|i| i.text.clone())
        .collect();
    v.sort();
    v
}

pub fn check_case(space: &str, choices: &[u32], c: &FCase, rep: &Report) {
    if !c.tags.iter().any(|t| t == "two-counterparts") {
        return;
    }
    let joint_src = c.item.render();
    rep.eval(1);
    rep.states.add_of(&joint_src);
    let joint = expand_item(&joint_src);
    rep.outputs.add_of(&joint.out);
    if !matches!(joint.out, Out::Impls(_)) || joint.impls.is_empty() {
        rep.count("joint_not_comparable(rejected/unparsable/panic)", 1);
        // ... but when the input restricted to EACH counterpart alone is accepted, nothing the joint input adds (instructions
        // for the other counterpart) may make it fail: the impls for either counterpart would exist without the other's
        if matches!(joint.out, Out::Errs(_) | Out::Panic(_)) {
            let both_ok = [("T", ["U"]), ("U", ["T"])].iter().all(|(keep, others)| {
                let pe = expand_item(&project(&c.item, keep, others).render());
                rep.eval(1);
                matches!(pe.out, Out::Impls(_)) && !pe.impls.is_empty()
            });
            if both_ok {
                let mut f = fail(space, choices, &joint_src, &c.tags, "joint-rejected", format!("each counterpart alone is accepted, both together give {}", match &joint.out { Out::Errs(m) => format!("{:?}", m), Out::Panic(m) => format!("panic: {}", m), _ => String::new() }));
                f.expected = "the impls of both single-counterpart inputs".into();
                rep.fail(f);
            }
        }
        return;
    }
    rep.nontrivial.add_of(&joint_src);
    for (keep, others) in [("T", ["U"]), ("U", ["T"])] {
        let proj = project(&c.item, keep, &others);
        let proj_src = proj.render();
        let pe = expand_item(&proj_src);
        rep.eval(1);
        rep.validate(1);
        let mut f = match &pe.out {
            Out::Impls(_) if !pe.impls.is_empty() => {
                let a = impls_for(&joint, keep);
                let b = impls_for(&pe, keep);
                let all_b: Vec<String> = {
                    let mut v: Vec<String> = pe.impls.iter().map(|i| i.text.clone()).collect();
                    v.sort();
                    v
                };
                if a == b && b == all_b {
                    continue;
                }
                let only_a: Vec<&String> = a.iter().filter(|x| !b.contains(x)).collect();
                let only_b: Vec<&String> = b.iter().filter(|x| !a.contains(x)).collect();
                let mut f = fail(space, choices, &joint_src, &c.tags, "different-expansion", format!("impls for {}: {} only in the joint expansion, {} only in the projected one", keep, only_a.len(), only_b.len()));
                f.expected = only_b.first().map(|s| crate::xp::trunc(s, 700)).unwrap_or_default();
                f.observed = only_a.first().map(|s| crate::xp::trunc(s, 700)).unwrap_or_default();
                f
            }
            other => {
                // the joint input is accepted; the projection must be accepted too (it breaks no rule the joint one did not)
                fail(space, choices, &joint_src, &c.tags, "different-verdict", format!("joint accepted, projection onto {} gives {}", keep, match other { Out::Errs(m) => format!("{:?}", m), Out::Panic(p) => p.clone(), _ => "unparsable output".into() }))
            }
        };
        f.aux = proj_src;
        f.tags.push(format!("keep={}", keep));
        rep.fail(f);
    }
    if rep.want_sample() && choices.iter().filter(|x| **x != 0).count() >= 4 {
        rep.sample(json!({"space": space, "choices": choices, "joint": joint_src, "projected_onto_T": project(&c.item, "T", &["U"]).render()}));
    }
}

pub fn run(tier: &str) -> i32 {
    let rep = Report::new("C06", tier, "exploration");
    rep.set_rule("every two-counterpart input (T, U) of the feature-interaction corpus (member mappings, ghost, ghosts, child, child_parents, parent, where_clause, type_hint, literal/pattern in default form or dedicated to T or to U; all kind presets) that is accepted: for each counterpart X the multiset of generated impls whose trait argument is X must equal (token level) the complete expansion of the projected input in which every trait instruction for the other counterpart and every instruction dedicated to it is deleted. states = distinct joint inputs; non-trivial = accepted joint inputs with parsable output");
    rep.assume("impls are attributed to a counterpart by the trait's type argument; in-process expansion (fallback lexer, syn 1)");
    let caps = Caps::from_env(if tier == "quick" { 150.0 } else { 1500.0 });
    let ctier = if tier == "quick" { "quick" } else { "mid" };
    corpus::for_each_in(corpus::spaces_2cp(ctier), &caps, &rep, |space, choices, c| check_case(space, choices, &c, &rep));
    corpus::for_each(ctier, &caps, &rep, |space, choices, c| check_case(space, choices, &c, &rep));
    rep.finish()
}

pub fn replay(f: &Failure) -> i32 {
    let c = match corpus::replay_case(&["quick", "thorough"], &f.space, &f.choices) {
        Some(c) => c,
        None => {
            eprintln!("MACHINERY-ERROR: cannot re-render {} {:?}", f.space, f.choices);
            return 2;
        }
    };
    if c.item.render() != f.input {
        eprintln!("MACHINERY-ERROR: replay rendered a different input than recorded");
        return 2;
    }
    let mut obs = vec![];
    for _ in 0..2 {
        let rep = Report::new("C06", "quick", "exploration");
        check_case(&f.space, &f.choices, &c, &rep);
        obs.push(rep.failures.lock().unwrap().iter().map(|x| (x.kind.clone(), x.detail.clone())).collect::<Vec<_>>());
    }
    if obs[0] != obs[1] {
        eprintln!("MACHINERY-ERROR: non-deterministic replay");
        return 2;
    }
    if obs[0].is_empty() {
        println!("replay: no failure on this tree");
        return 0;
    }
    for (k, d) in &obs[0] {
        println!("REPLAYED property=C06 kind={} detail={}", k, d);
    }
    println!("input:\n{}", f.input);
    1
}
