//! C05 - the most specific applicable member instruction wins; others never interfere.

use super::{fail, replay_space, run_space, Space};
use crate::explore::{Caps, Ctx};
use crate::ir::{analyse, ImplIR, OutIR, TraitK};
use crate::model::{appl, ghost_appl, member_map_names, winner, Dir, Kind};
use crate::report::{Failure, Report};
use crate::xp::{canon, expand_ts, trunc, Xp};
use serde_json::json;

#[derive(Clone, Debug)]
pub struct MInstr {
    pub name: String,
    pub ded: Option<String>,
    pub marker: usize, // rename r<marker>, expression `~ + <marker>` / ghost default {<marker>}
    pub ghost: bool,
}

impl MInstr {
    fn render(&self) -> String {
        let ded = self.ded.as_ref().map(|d| format!("{}| ", d)).unwrap_or_default();
        let bare = crate::item::has_bare_form(&self.name);
        let inner = if self.ghost { format!("{}({}{{ {} }})", self.name, ded, 1000 + self.marker) } else { format!("{}({}r{}, ~ + {})", self.name, ded, self.marker, 1000 + self.marker) };
        if bare { format!("#[{}]", inner) } else { format!("#[o2o({})]", inner) }
    }
    /// cells (dir, fallible) this instruction occupies
    fn cells(&self) -> Vec<(Dir, bool)> {
        if self.ghost {
            let (o, r) = ghost_appl(&self.name).unwrap();
            let mut v = vec![];
            for d in crate::model::DIRS {
                if (d.is_ref() && r) || (!d.is_ref() && o) {
                    v.push((d, false));
                }
            }
            v
        } else {
            let (dirs, f) = appl(&self.name).unwrap();
            dirs.into_iter().map(|d| (d, f)).collect()
        }
    }
}

pub struct Case {
    pub instrs: Vec<MInstr>,
    pub input: String,
    pub tags: Vec<String>,
}

pub struct Prec {
    pub max_instr: usize,
    /// where the instructions live: 0 named struct field | 1 tuple struct field | 2 field of a named enum variant |
    /// 3 field of a tuple enum variant | 4 an enum variant itself (variant-level instructions) |
    /// 5 a member listed inside a parameterised `#[parent(..)]` (nested `[instr(..)]` form)
    pub host: usize,
}

pub const HOSTS: [&str; 6] = ["named-struct", "tuple-struct", "enum-named-variant", "enum-tuple-variant", "enum-variant", "nested-parent"];

fn host_is_enum(host: usize) -> bool {
    (2..=4).contains(&host)
}

/// the counterpart's name for the member: an identifier where the counterpart is named, an index where it is positional
fn rename(host: usize, marker: usize) -> String {
    match host {
        1 | 3 => format!("{}", 40 + marker),
        4 => format!("R{}", marker),
        _ => format!("r{}", marker),
    }
}

pub fn to_item(instrs: &[MInstr]) -> crate::item::Item {
    to_item_on(instrs, 0)
}

pub fn to_item_on(instrs: &[MInstr], host: usize) -> crate::item::Item {
    use crate::item::{Field, Instr, Item, Shape, Variant};
    let positional = host == 1 || host == 3;
    let mut a = if positional { Field::pos("i32") } else { Field::named("a", "i32") };
    let mut vattrs = vec![];
    let mut nested = String::new();
    for i in instrs {
        match host {
            4 => {
                // variant-level: rename + expression block (no `~` at this level)
                let body = if i.ghost { format!("{{ {} }}", 1000 + i.marker) } else { format!("{}, {{ {} }}", rename(host, i.marker), 1000 + i.marker) };
                vattrs.push(Instr::new(&i.name, i.ded.as_deref(), &body));
            }
            5 => nested.push_str(&format!("[{}({}, ~ + {})] ", i.name, rename(host, i.marker), 1000 + i.marker)),
            _ => {
                let body = if i.ghost { format!("{{ {} }}", 1000 + i.marker) } else { format!("{}, ~ + {}", rename(host, i.marker), 1000 + i.marker) };
                a.attrs.push(Instr::new(&i.name, i.ded.as_deref(), &body));
            }
        }
    }
    let b = if positional { Field::pos("i32") } else { Field::named("b", "i32") };
    let mut it = match host {
        0 => Item::new_struct("S", Shape::Named, vec![a, b]),
        1 => Item::new_struct("S", Shape::Tuple, vec![a, b]),
        4 => Item::new_enum("S", vec![Variant { attrs: vattrs, name: "V".into(), shape: Shape::Tuple, fields: vec![Field::pos("i32")] }, Variant { attrs: vec![], name: "W".into(), shape: Shape::Unit, fields: vec![] }]),
        5 => Item::new_struct("S", Shape::Named, vec![Field { attrs: vec![Instr::new("parent", None, &format!("{}pa, pb", nested))], name: Some("p".into()), ty: "P".into() }, b]),
        _ => Item::new_enum("S", vec![Variant { attrs: vec![], name: "V".into(), shape: if host == 2 { Shape::Named } else { Shape::Tuple }, fields: vec![a, b] }, Variant { attrs: vec![], name: "W".into(), shape: Shape::Unit, fields: vec![] }]),
    };
    for cp in ["T", "U"] {
        it.attrs.push(Instr::new("map", None, cp));
        it.attrs.push(Instr::new("try_map", None, &format!("{}, Er", cp)));
        if !host_is_enum(host) {
            // (into_existing on an enum is a known finding of C16/C17: the enum hosts carry the 8 From/Into kinds)
            it.attrs.push(Instr::new("into_existing", None, cp));
            it.attrs.push(Instr::new("try_into_existing", None, &format!("{}, Er", cp)));
        }
    }
    it
}

fn render_input(instrs: &[MInstr], host: usize) -> String {
    to_item_on(instrs, host).render()
}

impl Space for Prec {
    type Case = Case;
    fn name(&self) -> String {
        if self.host == 0 { format!("precedence(<={})", self.max_instr) } else { format!("precedence(<={},{})", self.max_instr, HOSTS[self.host]) }
    }
    fn gen(&self, ctx: &mut Ctx) -> Option<Case> {
        let names = member_map_names();
        let gnames = ["ghost", "ghost_owned", "ghost_ref"];
        let k = 1 + ctx.choose(self.max_instr);
        let mut instrs: Vec<MInstr> = vec![];
        for i in 0..k {
            let n = ctx.choose(names.len() + gnames.len());
            let (name, ghost) = if n < names.len() { (names[n].to_string(), false) } else { (gnames[n - names.len()].to_string(), true) };
            let ded = [None, Some("T".to_string()), Some("U".to_string())][ctx.choose(3)].clone();
            if self.host == 5 && (ghost || ded.is_some() || appl(&name).unwrap().1) {
                return ctx.reject(); // inside #[parent(..)]: the infallible mapping names, undedicated (the parent instruction itself carries the dedication)
            }
            let mi = MInstr { name, ded, marker: i + 1, ghost };
            // at most one candidate per (level, bucket): the documentation does not rank two of them
            for o in &instrs {
                if o.ghost == mi.ghost && o.ded == mi.ded && o.cells().iter().any(|c| mi.cells().iter().any(|d| if mi.ghost { c.0 == d.0 } else { c == d })) {
                    return ctx.reject();
                }
            }
            instrs.push(mi);
        }
        // every order of the set: sets are generated as sequences, so every order is a distinct choice vector;
        // symmetric duplicates are removed by the canonical state key (rendered text)
        let mut tags = vec![format!("n={}", k), format!("host={}", HOSTS[self.host])];
        for i in &instrs {
            tags.push(format!("instr={}{}", i.name, i.ded.as_ref().map(|d| format!("|{}", d)).unwrap_or_default()));
        }
        Some(Case { input: render_input(&instrs, self.host), instrs, tags })
    }
    fn check(&self, c: Case, choices: &[u32], rep: &Report) {
        check_case_on(&self.name(), &c, choices, rep, self.host)
    }
}

/// expected winner of member `a` for (kind, counterpart): Some(index into instrs) or None (default mapping)
fn expected_winner(instrs: &[MInstr], k: Kind, cp: &str) -> Option<usize> {
    // a ghost applicable to the conversion beats them all: dedicated first, then default
    for want_ded in [true, false] {
        for (i, g) in instrs.iter().enumerate().filter(|x| x.1.ghost) {
            let (o, r) = ghost_appl(&g.name).unwrap();
            let applicable = if k.dir.is_ref() { r } else { o };
            if applicable && ((want_ded && g.ded.as_deref() == Some(cp)) || (!want_ded && g.ded.is_none())) {
                return Some(i);
            }
        }
    }
    let cands: Vec<(usize, Vec<Dir>, bool, Option<String>)> = instrs.iter().enumerate().filter(|x| !x.1.ghost).map(|(i, m)| { let (d, f) = appl(&m.name).unwrap(); (i, d, f, m.ded.clone()) }).collect();
    winner(&cands, k, cp)
}

fn find_impl<'a>(impls: &'a [ImplIR], k: Kind, cp: &str) -> Option<&'a ImplIR> {
    let tk = match (k.dir, k.fallible) {
        (Dir::FromOwned | Dir::FromRef, false) => TraitK::From,
        (Dir::FromOwned | Dir::FromRef, true) => TraitK::TryFrom,
        (Dir::OwnedInto | Dir::RefInto, false) => TraitK::Into,
        (Dir::OwnedInto | Dir::RefInto, true) => TraitK::TryInto,
        (_, false) => TraitK::IntoExisting,
        (_, true) => TraitK::TryIntoExisting,
    };
    let (self_ty, arg) = if k.dir.is_from() { ("S".to_string(), if k.dir.is_ref() { format!("& {}", cp) } else { cp.to_string() }) } else { (if k.dir.is_ref() { "& S".to_string() } else { "S".to_string() }, cp.to_string()) };
    impls.iter().find(|i| TraitK::of_path(&i.trait_path) == Some(tk) && i.self_ty == self_ty && i.trait_args.first() == Some(&arg))
}

fn impls_of(src: &str) -> Result<Vec<ImplIR>, (String, String)> {
    match expand_ts(src) {
        Ok(Ok(ts)) => match analyse(&ts) {
            OutIR::Impls(v, _) => Ok(v),
            OutIR::Unparsable(e) => Err(("unparsable-output".into(), format!("{} :: {}", e, trunc(&canon(&ts), 300)))),
        },
        Ok(Err(m)) => Err(("rejected-valid-input".into(), m.iter().skip(1).cloned().collect::<Vec<_>>().join(" | "))),
        Err(Xp::Panic { msg, loc }) => Err(("panic".into(), format!("{} @ {}", msg, loc.split(':').next().unwrap_or("")))),
        Err(x) => {
            eprintln!("MACHINERY-ERROR: not an item: {} :: {}", x.short(), src);
            std::process::exit(2);
        }
    }
}

pub fn check_case(space: &str, c: &Case, choices: &[u32], rep: &Report) {
    check_case_on(space, c, choices, rep, 0)
}

pub fn check_case_on(space: &str, c: &Case, choices: &[u32], rep: &Report, host: usize) {
    rep.eval(1);
    rep.states.add_of(&c.input);
    let impls = match impls_of(&c.input) {
        Ok(v) => v,
        Err((kind, detail)) => {
            rep.outputs.add_of(&detail);
            rep.fail(fail(space, choices, &c.input, &c.tags, &kind, detail));
            return;
        }
    };
    rep.validate(1);
    let mut sig = vec![];
    let mut nontrivial = false;
    // oracle 1: the winner's marker, and only it, appears in the impl
    for cp in ["T", "U"] {
        for k in Kind::all() {
            if host_is_enum(host) && !(k.dir.is_from() || matches!(k.dir, Dir::OwnedInto | Dir::RefInto)) {
                continue;
            }
            let w = expected_winner(&c.instrs, k, cp);
            if w.is_some() {
                nontrivial = true;
            }
            sig.push(w);
            let imp = match find_impl(&impls, k, cp) {
                Some(i) => i,
                None => {
                    rep.fail(fail(space, choices, &c.input, &c.tags, "missing-impl", format!("{} for {}", k.basic_name(), cp)));
                    continue;
                }
            };
            let body = &imp.methods.first().map(|m| m.body.clone()).unwrap_or_default();
            let toks: Vec<&str> = body.split(' ').collect();
            let has = |m: &MInstr| {
                let mk = (1000 + m.marker).to_string();
                toks.iter().any(|t| *t == mk)
            };
            let mut problems = vec![];
            for (i, m) in c.instrs.iter().enumerate() {
                let present = has(m);
                // a winning ghost makes Into skip the member: no marker at all; a ghost VARIANT is the mirror image: its
                // action is the Into result and From never produces the variant
                let should = w == Some(i) && !(m.ghost && (k.dir.is_from() == (host == 4)));
                if present != should {
                    problems.push(format!("instruction #{} `{}` {} in the impl", i, m.render(), if present { "takes effect (its marker occurs)" } else { "does not take effect (its marker is missing)" }));
                }
            }
            // a winning ghost in an Into kind: member `a` must not be read at all
            if let Some(i) = w {
                if c.instrs[i].ghost && !k.dir.is_from() && host == 0 && body.contains("self . a") {
                    problems.push("member `a` is a ghost for this conversion but is still read".into());
                }
            }
            if !problems.is_empty() {
                let mut tags = c.tags.clone();
                tags.push(format!("kind={}", k.basic_name()));
                tags.push(format!("cp={}", cp));
                let mut f = fail(space, choices, &c.input, &tags, "wrong-winner", format!("{} for {}: {}", k.basic_name(), cp, problems.join("; ")));
                f.expected = format!("winner per M_prec: {}", w.map(|i| c.instrs[i].render()).unwrap_or_else(|| "default mapping".into()));
                f.observed = trunc(&imp.text, 600);
                rep.fail(f);
            }
        }
    }
    rep.outputs.add_of(&sig);
    if nontrivial {
        rep.nontrivial.add_of(&c.input);
    }
    // oracle 2 (non-interference): removing instruction i leaves every impl where i is not the winner token-identical
    if c.instrs.len() > 1 {
        for i in 0..c.instrs.len() {
            let mut rest = c.instrs.clone();
            rest.remove(i);
            let src2 = render_input(&rest, host);
            rep.eval(1);
            let impls2 = match impls_of(&src2) {
                Ok(v) => v,
                Err(_) => continue, // reported when that smaller case is visited itself
            };
            for cp in ["T", "U"] {
                for k in Kind::all() {
                    if host_is_enum(host) && !(k.dir.is_from() || matches!(k.dir, Dir::OwnedInto | Dir::RefInto)) {
                        continue;
                    }
                    if expected_winner(&c.instrs, k, cp) == Some(i) {
                        continue;
                    }
                    let (a, b) = (find_impl(&impls, k, cp), find_impl(&impls2, k, cp));
                    if let (Some(a), Some(b)) = (a, b) {
                        if a.text != b.text {
                            let mut tags = c.tags.clone();
                            tags.push(format!("kind={}", k.basic_name()));
                            tags.push(format!("cp={}", cp));
                            let mut f = fail(space, choices, &c.input, &tags, "interference", format!("{} for {}: the impl changes when the shadowed / inapplicable instruction `{}` is removed", k.basic_name(), cp, c.instrs[i].render()));
                            f.aux = src2.clone();
                            f.expected = trunc(&b.text, 500);
                            f.observed = trunc(&a.text, 500);
                            rep.fail(f);
                        }
                    }
                }
            }
        }
    }
    if rep.want_sample() && c.instrs.len() >= 2 && nontrivial {
        let winners: Vec<String> = ["T", "U"].iter().flat_map(|cp| Kind::all().into_iter().map(move |k| (cp, k))).map(|(cp, k)| format!("{}/{}: {}", cp, k.basic_name(), expected_winner(&c.instrs, k, cp).map(|i| format!("#{}", c.instrs[i].marker)).unwrap_or("default".into()))).collect();
        rep.sample(json!({"choices": choices, "input": c.input, "expected_winners": winners}));
    }
}

pub fn run(tier: &str) -> i32 {
    let rep = Report::new("C05", tier, "model_checking");
    rep.set_rule("member `a` of a named struct mapped to two counterparts T, U with all 12 conversion kinds each (24 impls) carries every sequence of <= k instructions (k = 2 quick, 3 thorough) drawn from 21 mapping names x {default, dedicated T, dedicated U} + {ghost, ghost_owned, ghost_ref} x {default, T, U}, at most one per (kind-level, dedication) bucket, every order; each instruction has a unique rename and marker. Oracle 1: for every (kind, fallibility, counterpart) the impl contains the marker of the instruction M_prec designates (ghost > exact kind > infallible of that kind > corresponding into (fallible, then infallible); dedicated beats default at each step) and no other marker. Oracle 2: removing any instruction leaves every impl in which it is not the winner token-identical. states = distinct inputs; non-trivial = inputs where some conversion has a non-default winner");
    rep.assume("M_prec is transcribed from the property statement; impls are located by (trait, Self, argument) read through a real parser; in-process expansion (fallback lexer, syn 1)");
    let caps = Caps::from_env(if tier == "quick" { 150.0 } else { 1500.0 });
    run_space(&Prec { max_instr: if tier == "quick" { 2 } else { 3 }, host: 0 }, None, &caps, &rep);
    // the same instruction sets on a tuple-struct member and on payload fields of enum variants (positional renames
    // are indices, payload members are bindings): the selection logic must not depend on where the member lives
    for host in 1..6 {
        run_space(&Prec { max_instr: 2, host }, None, &caps, &rep);
    }
    run_space(&Lookups, None, &caps, &rep);
    run_space(&AsTypePrec, None, &caps, &rep);
    rep.finish()
}

pub fn replay(f: &Failure) -> i32 {
    if f.space == "dedicated-vs-default-lookups" {
        return replay_space(&Lookups, f, "C05");
    }
    if f.space == "as_type-precedence" {
        return replay_space(&AsTypePrec, f, "C05");
    }
    let inner = f.space.trim_start_matches("precedence(<=").trim_end_matches(')');
    let mut parts = inner.splitn(2, ',');
    let n: usize = parts.next().unwrap_or("2").parse().unwrap_or(2);
    let host = parts.next().and_then(|h| HOSTS.iter().position(|x| *x == h)).unwrap_or(0);
    replay_space(&Prec { max_instr: n, host }, f, "C05")
}

// ---------------------------------------------------------------------------------------------------------------
// dedicated-vs-default for every OTHER instruction that can be dedicated to a counterpart (type level, variant level,
// and the member instructions outside the mapping menu).  Added after round-3 seeds C01-03, C02-03, C03-03, C05-03
// (all four: "first default-or-dedicated instruction wins" instead of "dedicated first, default as fallback").

/// `#[as_type(X)]` in the precedence chain (seed C05-11): it stands for a `from` instruction (From kinds) and an
/// instruction that applies DIRECTLY to the Into and the IntoExisting kinds (infallible).  Scenarios x written order x
/// owned / by-ref: which of {the cast, the competing expression `+ 7`} each impl must contain.
pub struct AsTypePrec;

pub struct ACase {
    pub input: String,
    /// (trait name, counterpart, must contain the cast?)
    pub expect: Vec<(&'static str, &'static str, bool)>,
    pub tags: Vec<String>,
}

/// (scenario, type-level instructions, as_type instruction, competing instruction, expectations)
const AS_TYPE_SCENARIOS: &[(&str, &str, &str, &str, &[(&str, &str, bool)])] = &[
    // dedicated cast vs default into_existing: at the exact-kind step the dedicated instruction wins for T, the default one for U
    ("dedicated-cast-vs-default-existing", "#[into_existing(T)] #[into_existing(U)]", "#[o2o(as_type(T| i64))]", "#[into_existing(~ + 7)]", &[("IntoExisting", "T", true), ("IntoExisting", "U", false)]),
    // default cast vs dedicated into_existing
    ("default-cast-vs-dedicated-existing", "#[into_existing(T)] #[into_existing(U)]", "#[o2o(as_type(i64))]", "#[into_existing(U| ~ + 7)]", &[("IntoExisting", "T", true), ("IntoExisting", "U", false)]),
    // fallible into_existing: no fallible instruction of that kind -> the infallible one of that kind (the cast) - before the `into` fallback
    ("cast-vs-fallible-into", "#[try_into(T, Er)] #[try_into_existing(T, Er)]", "#[o2o(as_type(i64))]", "#[try_into(~ + 7)]", &[("TryInto", "T", false), ("TryIntoExisting", "T", true)]),
    // an `into` instruction dedicated to T wins Into<T> only: IntoExisting<T> has an instruction of its own kind (the cast)
    ("cast-vs-dedicated-into", "#[into(T)] #[into_existing(T)] #[into(U)] #[into_existing(U)]", "#[o2o(as_type(i64))]", "#[into(T| ~ + 7)]", &[("Into", "T", false), ("IntoExisting", "T", true), ("Into", "U", true), ("IntoExisting", "U", true)]),
    // From side: a dedicated from instruction beats the default cast for T only
    ("cast-vs-dedicated-from", "#[from(T)] #[from(U)]", "#[o2o(as_type(i64))]", "#[from(T| ~ + 7)]", &[("From", "T", false), ("From", "U", true)]),
];

impl Space for AsTypePrec {
    type Case = ACase;
    fn name(&self) -> String {
        "as_type-precedence".into()
    }
    fn gen(&self, ctx: &mut Ctx) -> Option<ACase> {
        let (name, ty, cast, other, expect) = AS_TYPE_SCENARIOS[ctx.choose(AS_TYPE_SCENARIOS.len())];
        let cast_first = ctx.flag();
        let tuple = ctx.flag();
        let (a, b) = if cast_first { (cast, other) } else { (other, cast) };
        let input = if tuple { format!("{} struct S({} {} i32, i32);", ty, a, b) } else { format!("{} struct S {{ {} {} a: i32, b: i32 }}", ty, a, b) };
        Some(ACase { input, expect: expect.to_vec(), tags: vec![format!("scenario={}", name), format!("cast_first={}", cast_first), format!("tuple={}", tuple)] })
    }
    fn check(&self, c: ACase, choices: &[u32], rep: &Report) {
        let space = self.name();
        rep.eval(1);
        rep.states.add_of(&c.input);
        rep.nontrivial.add_of(&c.input);
        let impls = match impls_of(&c.input) {
            Ok(v) => v,
            Err((kind, detail)) => {
                rep.outputs.add_of(&detail);
                rep.fail(fail(&space, choices, &c.input, &c.tags, &kind, detail));
                return;
            }
        };
        rep.validate(1);
        let mut sig = vec![];
        for (tr, cp, cast) in &c.expect {
            let mine: Vec<&ImplIR> = impls.iter().filter(|i| i.trait_path.last().map_or(false, |t| t == tr) && i.trait_args.first().map(|a| a.trim_start_matches("& ") == *cp).unwrap_or(false)).collect();
            if mine.len() != 2 {
                rep.fail(fail(&space, choices, &c.input, &c.tags, "missing-impl", format!("expected the owned and the by-ref impl of {}<{}>, found {}", tr, cp, mine.len())));
                continue;
            }
            for i in mine {
                let has_cast = i.text.contains(" as i64") || i.text.contains(" as i32");
                let has_other = i.text.contains("+ 7");
                sig.push((*tr, *cp, has_cast, has_other));
                if has_cast != *cast || has_other == *cast {
                    let mut f = fail(&space, choices, &c.input, &c.tags, "wrong-winner", format!("`impl {}<{}> for {}` must use {} but contains: cast={} expression={}", tr, cp, i.self_ty, if *cast { "the #[as_type] cast" } else { "the competing expression `+ 7`" }, has_cast, has_other));
                    f.observed = trunc(&i.text, 600);
                    rep.fail(f);
                }
            }
        }
        rep.outputs.add_of(&sig);
    }
}

pub struct Lookups;

pub struct LCase {
    pub input: String,
    /// the two counterpart types as written
    pub cps: [&'static str; 2],
    pub family: &'static str,
    /// (slot: None = default | Some(cp), marker token) in written order
    pub instrs: Vec<(Option<&'static str>, String)>,
    pub tags: Vec<String>,
}

/// (family, host with {TYPE} / {MEMBER} hole, instruction template with {d} = "T| " or "" and {m} = marker number, marker template)
const FAMILIES: &[(&str, &str, &str, &str)] = &[
    ("struct-ghosts", "#[map(T)] #[into_existing(T)] #[map(U)] #[into_existing(U)] {TYPE} struct S { a: i32 }", "#[ghosts({d}g: { {m} })]", "{m}"),
    ("struct-ghosts_owned", "#[map(T)] #[into_existing(T)] #[map(U)] #[into_existing(U)] {TYPE} struct S { a: i32 }", "#[o2o(ghosts_owned({d}g: { {m} }))]", "{m}"),
    ("struct-ghosts_ref", "#[map(T)] #[into_existing(T)] #[map(U)] #[into_existing(U)] {TYPE} struct S { a: i32 }", "#[o2o(ghosts_ref({d}g: { {m} }))]", "{m}"),
    ("tuple-struct-ghosts", "#[map(T)] #[into_existing(T)] #[map(U)] #[into_existing(U)] {TYPE} struct S(i32);", "#[ghosts({d}1: { {m} })]", "{m}"),
    ("enum-ghosts", "#[map(T)] #[try_map(T, Er)] #[map(U)] #[try_map(U, Er)] {TYPE} enum S { A(i32), B }", "#[ghosts({d}Y: { S::A({m}) })]", "{m}"),
    ("variant-ghosts", "#[map(T)] #[try_map(T, Er)] #[map(U)] #[try_map(U, Er)] enum S { {MEMBER} A(i32), B }", "#[ghosts({d}1: { {m} })]", "{m}"),
    ("child_parents", "#[map(T)] #[into_existing(T)] #[map(U)] #[into_existing(U)] {TYPE} struct S { #[child(p)] a: i32, b: i32 }", "#[child_parents({d}p: P{m})]", "P{m}"),
    ("child", "#[map(T)] #[into_existing(T)] #[map(U)] #[into_existing(U)] #[child_parents(q1001: Q, q1002: Q, q1003: Q)] struct S { {MEMBER} a: i32, b: i32 }", "#[child({d}q{m})]", "q{m}"),
    ("parent", "#[map(T)] #[into_existing(T)] #[map(U)] #[into_existing(U)] struct S { {MEMBER} p: P, b: i32 }", "#[parent({d}x{m}, y{m})]", "x{m}"),
    ("where_clause", "#[map(T)] #[into_existing(T)] #[map(U)] #[into_existing(U)] {TYPE} struct S { a: i32 }", "#[where_clause({d}W{m}: Clone)]", "W{m}"),
    ("variant-map", "#[map(T)] #[try_map(T, Er)] #[map(U)] #[try_map(U, Er)] enum S { {MEMBER} A(i32), B }", "#[map({d}V{m})]", "V{m}"),
    ("variant-field-ghost", "#[map(T)] #[try_map(T, Er)] #[map(U)] #[try_map(U, Er)] enum S { A(i32, {MEMBER} i32), B }", "#[ghost({d}{ {m} })]", "{m}"),
    ("as_type", "#[map(T)] #[into_existing(T)] #[map(U)] #[into_existing(U)] struct S { {MEMBER} a: i32, b: i32 }", "#[o2o(as_type({d}Ty{m}))]", "Ty{m}"),
    // a ghost variant WITHOUT an action: the marker is the absence of the variant's arm in the Into impls of the counterparts
    // it applies to (those fall to the `_ =>` default case) - seed C02-09
    ("variant-ghost-bare", "#[map(T| _ => todo!())] #[try_map(T, Er| _ => todo!())] #[map(U| _ => todo!())] #[try_map(U, Er| _ => todo!())] enum S { {MEMBER} A(i32), B }", "#[ghost({d0})]", "-"),
    // the marker is the FORM of the counterpart variant: `A ( )` for the default hint, `A { }` for the one dedicated to T
    ("variant-type_hint", "#[map(T)] #[try_map(T, Er)] #[map(U)] #[try_map(U, Er)] enum S { {MEMBER} A, B }", "#[type_hint({d}{h})]", "{hm}"),
];

impl Space for Lookups {
    type Case = LCase;
    fn name(&self) -> String {
        "dedicated-vs-default-lookups".into()
    }
    fn gen(&self, ctx: &mut Ctx) -> Option<LCase> {
        let (family, host, tmpl, mk) = FAMILIES[ctx.choose(FAMILIES.len())];
        let present = ctx.subset(3); // default, T, U
        if present.iter().filter(|x| **x).count() < if family == "variant-ghost-bare" { 1 } else { 2 } {
            return ctx.reject();
        }
        if family == "variant-type_hint" && present[2] {
            return ctx.reject(); // two distinguishable hint forms only: default and T
        }
        // how the two counterparts are spelled: plain | same last segment in different modules | one generic type with
        // different arguments (seeds C06-06, C11-07: lookups keyed by a shortened spelling of the type)
        let cps: [&'static str; 2] = [["T", "U"], ["a::K", "b::K"], ["M<i32>", "M<f32>"]][ctx.choose(3)];
        let slots: Vec<(Option<&'static str>, usize)> = [(None, 1001usize), (Some(cps[0]), 1002), (Some(cps[1]), 1003)].iter().enumerate().filter(|(i, _)| present[*i]).map(|(_, x)| *x).collect();
        // every written order
        let perm = ctx.permutation(slots.len());
        let mut instrs = vec![];
        let mut text = vec![];
        for i in perm {
            let (slot, m) = slots[i];
            let d = slot.map(|s| format!("{}| ", s)).unwrap_or_default();
            let (h, hm) = if slot.is_none() { ("as ()", "A ( )") } else { ("as {}", "A { }") };
            // `#[ghost(T)]` / `#[ghost]`: the dedication without the `| ` separator
            let d0 = slot.unwrap_or("");
            text.push(tmpl.replace("{d0}", d0).replace("{d}", &d).replace("{m}", &m.to_string()).replace("{h}", h));
            instrs.push((slot, mk.replace("{m}", &m.to_string()).replace("{hm}", hm)));
        }
        let text: Vec<String> = text.into_iter().map(|t| t.replace("#[ghost()]", "#[ghost]")).collect();
        let input = host
            .replace("(T)", &format!("({})", cps[0]))
            .replace("(T|", &format!("({}|", cps[0]))
            .replace("(U|", &format!("({}|", cps[1]))
            .replace("(T,", &format!("({},", cps[0]))
            .replace("(U)", &format!("({})", cps[1]))
            .replace("(U,", &format!("({},", cps[1]))
            .replace("{TYPE}", &text.join(" "))
            .replace("{MEMBER}", &text.join(" "));
        let mut tags = vec![format!("family={}", family), format!("counterparts={}+{}", cps[0], cps[1])];
        tags.push(format!("order={}", instrs.iter().map(|(s, _)| s.unwrap_or("default")).collect::<Vec<_>>().join(">")));
        Some(LCase { input, cps, family, instrs, tags })
    }
    fn check(&self, c: LCase, choices: &[u32], rep: &Report) {
        let space = self.name();
        rep.eval(1);
        rep.states.add_of(&c.input);
        rep.nontrivial.add_of(&c.input);
        let impls = match impls_of(&c.input) {
            Ok(v) => v,
            Err((kind, detail)) => {
                rep.outputs.add_of(&detail);
                rep.fail(fail(&space, choices, &c.input, &c.tags, &kind, detail));
                return;
            }
        };
        rep.validate(1);
        if std::env::var("O2OV_DEBUG_LOOKUPS").is_ok() && c.family == "variant-ghost-bare" {
            eprintln!("DEBUG {:?} :: {}", c.instrs, c.input.replace('\n', " "));
        }
        if c.family == "variant-ghost-bare" {
            // the variant is a ghost for a counterpart iff an instruction dedicated to it, or the default one, is present
            for cp in c.cps {
                let applies = c.instrs.iter().any(|(s, _)| *s == Some(cp) || s.is_none());
                let cp_canon = crate::xp::atoms_of_str(cp).map(|a| a.join(" ")).unwrap_or_default();
                for i in impls.iter().filter(|i| i.trait_args.first().map(|a| a.trim_start_matches("& ") == cp_canon).unwrap_or(false)) {
                    let is_into = i.trait_path.last().map_or(false, |t| t == "Into" || t == "TryInto");
                    let has_arm = i.text.contains("S : : A (");
                    // Into: a ghost variant has no arm of its own; From: a ghost variant is never produced
                    if has_arm == applies {
                        let mut tags = c.tags.clone();
                        tags.push(format!("cp={}", cp));
                        let mut f = fail(&space, choices, &c.input, &tags, "wrong-winner", format!("variant-ghost-bare for {}: variant A {} a ghost for this counterpart but `impl {} <{}>` {} it", cp, if applies { "is" } else { "is not" }, i.trait_path.last().cloned().unwrap_or_default(), i.trait_args.join(", "), if has_arm { "maps" } else { "skips" }));
                        f.observed = trunc(&i.text, 600);
                        rep.fail(f);
                    }
                    let _ = is_into;
                }
            }
            rep.outputs.add_of(&(c.family, c.instrs.len()));
            return;
        }
        let mut sig = vec![];
        for cp in c.cps {
            let expected: Option<&String> = c.instrs.iter().find(|(s, _)| *s == Some(cp)).or_else(|| c.instrs.iter().find(|(s, _)| s.is_none())).map(|x| &x.1);
            let cp_canon = crate::xp::atoms_of_str(cp).map(|a| a.join(" ")).unwrap_or_default();
            let mine: Vec<&ImplIR> = impls.iter().filter(|i| i.trait_args.first().map(|a| a.trim_start_matches("& ") == cp_canon).unwrap_or(false)).collect();
            if mine.is_empty() {
                rep.fail(fail(&space, choices, &c.input, &c.tags, "missing-impl", format!("no impl for counterpart {}", cp)));
                continue;
            }
            let mut problems = vec![];
            let mut seen_expected = false;
            for i in &mine {
                let padded = format!(" {} ", i.text);
                for (_, m) in &c.instrs {
                    let present = padded.contains(&format!(" {} ", m));
                    if Some(m) == expected {
                        seen_expected |= present;
                    } else if present {
                        problems.push(format!("`{}` (of an instruction that is shadowed or dedicated to the other counterpart) occurs in `impl {} <{}> for {}`", m, i.trait_path.last().cloned().unwrap_or_default(), i.trait_args.join(", "), i.self_ty));
                    }
                }
            }
            if let Some(e) = expected {
                if !seen_expected {
                    problems.push(format!("`{}` (the instruction that applies to {}) occurs in none of its impls", e, cp));
                }
            }
            sig.push((cp, expected.cloned(), problems.len()));
            if !problems.is_empty() {
                let mut tags = c.tags.clone();
                tags.push(format!("cp={}", cp));
                let mut f = fail(&space, choices, &c.input, &tags, "wrong-winner", format!("{} for {}: {}", c.family, cp, problems.join("; ")));
                f.expected = format!("instruction in effect for {}: {}", cp, expected.cloned().unwrap_or_else(|| "none".into()));
                f.observed = trunc(&mine.iter().map(|i| i.text.clone()).collect::<Vec<_>>().join(" || "), 900);
                rep.fail(f);
            }
        }
        rep.outputs.add_of(&(c.family, sig));
        if rep.want_sample() {
            rep.sample(json!({"choices": choices, "input": c.input}));
        }
    }
}
