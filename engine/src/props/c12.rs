//! C12 - shortcut instructions equal the basic instructions they abbreviate (metamorphic, token level).
//! C13 - #[o2o(..)] spellings generate the same code as bare attributes.

use super::fail;
use crate::corpus;
use crate::explore::{explore2, Caps, Ctx};
use crate::feat::FCase;
use crate::item::{has_bare_form, Form, Item};
use crate::meta::{diff, expand_item, rewrite_shortcuts, shortcut_sites, Out};
use crate::report::{Failure, Report};
use serde_json::json;

pub struct Pair {
    pub base: FCase,
    pub variant: Item,
    pub what: String,
}

fn gen_c12(ctx: &mut Ctx, g: &(dyn Fn(&mut Ctx) -> Option<FCase> + Sync)) -> Option<Pair> {
    let base = g(ctx)?;
    let n = shortcut_sites(&base.item);
    if n == 0 {
        return ctx.reject();
    }
    // every non-empty subset of the shortcut occurrences (secondary deviation class)
    ctx.set_class(1);
    let sel = ctx.subset(n);
    if !sel.iter().any(|x| *x) {
        return ctx.reject();
    }
    let variant = rewrite_shortcuts(&base.item, &sel);
    Some(Pair { base, variant, what: format!("rewritten sites {:?}", sel) })
}

/// every spelling: each instruction with a bare form as Bare or O2o; adjacent o2o instructions joined or not;
/// trailing comma or not on every list
fn gen_c13(ctx: &mut Ctx, g: &(dyn Fn(&mut Ctx) -> Option<FCase> + Sync)) -> Option<Pair> {
    let base = g(ctx)?;
    let mut v = base.item.clone();
    let mut changed = false;
    ctx.set_class(1);
    for l in v.attr_lists_mut() {
        for k in 0..l.len() {
            if l[k].fixed {
                continue;
            }
            let can_bare = has_bare_form(&l[k].name);
            let prev_o2o = k > 0 && l[k - 1].form != Form::Bare;
            // options: keep default | the other wrapper | join previous list
            let mut opts = vec![l[k].form];
            if can_bare {
                opts.push(if l[k].form == Form::Bare { Form::O2o } else { Form::Bare });
            }
            if prev_o2o && !opts.contains(&Form::Join) {
                opts.push(Form::Join);
            }
            if opts.len() > 1 {
                let c = ctx.choose(opts.len());
                if c != 0 {
                    changed = true;
                }
                l[k].form = opts[c];
            }
            if l[k].form != Form::Bare && (k + 1 == l.len() || true) {
                // trailing comma is decided at render time for the last element of each list
            }
        }
        // trailing comma on lists
        for k in 0..l.len() {
            let last_of_list = l[k].form != Form::Bare && (k + 1 == l.len() || l[k + 1].form != Form::Join);
            if last_of_list && ctx.flag() {
                l[k].trailing_comma = true;
                changed = true;
            }
        }
    }
    if !changed {
        return ctx.reject();
    }
    Some(Pair { base, variant: v, what: "respelled".into() })
}

fn check_pair(prop: &str, space: &str, choices: &[u32], p: &Pair, rep: &Report, strip_suffix: bool) {
    let a_src = p.base.item.render();
    let b_src = p.variant.render();
    rep.eval(2);
    rep.states.add_of(&(&a_src, &b_src));
    // the base expansion is shared by all rewrites of one base input: small per-thread cache
    thread_local! { static CACHE: std::cell::RefCell<std::collections::VecDeque<(u64, Out)>> = std::cell::RefCell::new(std::collections::VecDeque::new()); }
    let key = crate::report::h64(&a_src);
    let cached = CACHE.with(|c| c.borrow().iter().find(|x| x.0 == key).map(|x| x.1.clone()));
    let a_out = match cached {
        Some(o) => o,
        None => {
            let o = expand_item(&a_src).out;
            CACHE.with(|c| {
                let mut c = c.borrow_mut();
                c.push_back((key, o.clone()));
                if c.len() > 16 {
                    c.pop_front();
                }
            });
            o
        }
    };
    struct A { out: Out }
    let a = A { out: a_out };
    let b = expand_item(&b_src);
    rep.validate(1);
    rep.outputs.add_of(&a.out);
    if matches!(a.out, Out::Impls(_)) {
        rep.nontrivial.add_of(&(&a_src, &b_src));
        rep.count("pairs_accepted", 1);
    } else {
        rep.count("pairs_rejected", 1);
    }
    // C12 is about the generated impls: when both forms are rejected the wording of the diagnostics (which names the
    // instruction as written) is not compared; C13 compares the diagnostic sets too
    let both_rejected = matches!((&a.out, &b.out), (Out::Errs(_), Out::Errs(_)));
    if !strip_suffix && both_rejected {
        rep.count("pairs_both_rejected", 1);
    } else if let Some((kind, detail)) = diff(&a.out, &b.out, strip_suffix) {
        let mut f = fail(space, choices, &a_src, &p.base.tags, &kind, detail);
        f.aux = b_src.clone();
        f.tags.push(format!("what={}", p.what));
        f.expected = "identical expansion / identical accept-reject decision".into();
        rep.fail(f);
    }
    if rep.want_sample() && choices.iter().filter(|x| **x != 0).count() >= 4 {
        rep.sample(json!({"space": space, "choices": choices, "input": a_src, "rewritten": b_src, "verdict": crate::meta::verdict(&a.out)}));
    }
    let _ = prop;
}

fn run_meta(prop: &str, tier: &str, rule: &str, extra_bound: usize, which: u8) -> i32 {
    let rep = Report::new(prop, tier, "exploration");
    rep.set_rule(rule);
    rep.assume("token-level comparison of the multiset of generated impl items (impl order is not compared); in-process expansion (fallback lexer, syn 1)");
    let caps = Caps::from_env(if tier == "quick" { 150.0 } else { 1500.0 });
    // the thorough tier multiplies the corpus by the rewrite product: it uses the corpus at its middle depth
    for sp in corpus::spaces(if tier == "quick" { "quick" } else { "mid" }) {
        let name = format!("{}/{}", if which == 12 { "shortcuts" } else { "spellings" }, sp.name);
        // the every-name spaces are large: one deviation less for the (wider) respelling product in the quick tier
        let bound = if tier == "quick" && ((which == 13 && (sp.name.starts_with("names-") || sp.name == "faulty")) || (which == 12 && (sp.name == "faulty" || sp.name == "names-parent"))) { sp.bound.map(|b| b.saturating_sub(1)) } else { sp.bound };
        // (the thorough tier deepens the corpus, not the rewrite product: mid corpus x rewrite-dev(3) did not finish in 25 min)
        let bound2 = Some(extra_bound);
        let st = explore2(
            |ctx| if which == 12 { gen_c12(ctx, &*sp.gen) } else { gen_c13(ctx, &*sp.gen) },
            bound,
            bound2,
            &caps,
            |ch, p| check_pair(prop, &name, ch, &p, &rep, which == 13),
        );
        let b = format!("{} x rewrite-dev({})", bound.map(|b| format!("dev({})", b)).unwrap_or_else(|| "full".into()), bound2.unwrap());
        rep.add_stats(&name, &b, &st);
        eprintln!("  space {} [{}]: {} choice vectors, {} pruned{}", name, b, st.leaves, st.pruned, if st.capped { " (CAPPED)" } else { "" });
    }
    rep.finish()
}

pub fn run_c12(tier: &str) -> i32 {
    run_meta("C12", tier, "for every input of the host corpus and every non-empty subset of its shortcut occurrences (type level, member level, variant level, nested [..] inside #[parent(..)]; ghost/ghosts -> _owned + _ref) the occurrences are rewritten to the documented basic instructions with the same arguments (README:232-264); the multiset of generated impl items (token level) and the accept/reject decision (diagnostic set) must be identical. states = distinct (input, rewritten input) pairs; non-trivial = pairs whose original is accepted", 2, 12)
}

pub fn run_c13(tier: &str) -> i32 {
    run_meta_c13(tier, "for every input of the host corpus, every instruction that has a bare form (attributes(..) list of o2o-macros read at start-up) is written bare or as #[o2o(x(..))], every adjacent run of o2o-form instructions is joined into one list or not, every list ends with or without a trailing comma (all combinations up to the deviation bound); generated impl items (token level) and accept/reject decision must equal those of the default spelling (diagnostics compared modulo the documented allow_unknown suffix). states = distinct (input, respelled input) pairs; non-trivial = pairs whose original is accepted")
}

fn run_meta_c13(tier: &str, rule: &str) -> i32 {
    run_meta("C13", tier, rule, 2, 13)
}

fn replay_meta(prop: &str, f: &Failure, which: u8) -> i32 {
    let base_space = f.space.split('/').nth(1).unwrap_or("");
    for t in ["quick", "mid", "thorough"] {
        for sp in corpus::spaces(t) {
            if sp.name != base_space {
                continue;
            }
            let (p, full) = crate::explore::replay_one(|ctx| if which == 12 { gen_c12(ctx, &*sp.gen) } else { gen_c13(ctx, &*sp.gen) }, &f.choices);
            if full != f.choices {
                continue;
            }
            if let Some(p) = p {
                if p.base.item.render() != f.input {
                    continue;
                }
                let mut obs = vec![];
                for _ in 0..2 {
                    let rep = Report::new(prop, "quick", "exploration");
                    check_pair(prop, &f.space, &f.choices, &p, &rep, which == 13);
                    obs.push(rep.failures.lock().unwrap().iter().map(|x| (x.kind.clone(), x.detail.clone())).collect::<Vec<_>>());
                }
                if obs[0] != obs[1] {
                    eprintln!("MACHINERY-ERROR: non-deterministic replay");
                    return 2;
                }
                if obs[0].is_empty() {
                    println!("replay: no failure on this tree");
                    return 0;
                }
                for (k, d) in &obs[0] {
                    println!("REPLAYED property={} kind={} detail={}", prop, k, d);
                }
                println!("input:\n{}\nvariant:\n{}", f.input, p.variant.render());
                return 1;
            }
        }
    }
    eprintln!("MACHINERY-ERROR: cannot re-render {} {:?}", f.space, f.choices);
    2
}

pub fn replay_c12(f: &Failure) -> i32 {
    replay_meta("C12", f, 12)
}
pub fn replay_c13(f: &Failure) -> i32 {
    replay_meta("C13", f, 13)
}
