//! C08 - trait-instruction params (vars, ..update, return, attributes) act as documented.
//! Part A (in-process, structural): placement of attribute / impl_attribute / inner_attribute on every impl the
//! instruction produces and nowhere else. Part B (rustc + execution): vars evaluated once, in order, before the
//! result is built and in scope for member expressions; ..update supplies exactly the unprovided leaves; return
//! replaces the body.

use super::bcommon::{run_items, BItem};
use super::{fail, run_space, Space};
use crate::explore::{explore, replay_one, Caps, Ctx};
use crate::ir::{analyse, OutIR, TraitK};
use crate::model::{all_trait_names, appl, Dir, Kind};
use crate::report::{Failure, Report};
use crate::rt::BOpts;
use crate::xp::{expand_ts, trunc, Xp};
use serde_json::json;
use std::fmt::Write;
use std::sync::Mutex;

// ---------------------------------------------------------------------------------------------------------------
// part A

pub struct Placement;

pub struct PCase {
    pub input: String,
    pub tags: Vec<String>,
    pub name: String,
    pub has: [bool; 3], // attribute, impl_attribute, inner_attribute
}

const ATTR: &str = "# [ inline ]";
const IMPL_ATTR: &str = "# [ cfg ( all ( ) ) ]";
const INNER_ATTR: &str = "# ! [ allow ( unused ) ]";

impl Space for Placement {
    type Case = PCase;
    fn name(&self) -> String {
        "placement".into()
    }
    fn gen(&self, ctx: &mut Ctx) -> Option<PCase> {
        let names = all_trait_names();
        let name = names[ctx.choose(names.len())];
        let (dirs, fallible) = appl(name).unwrap();
        let host = ctx.choose(3); // named struct | enum | struct with bare parent + ghosts
        if host == 1 && dirs.iter().any(|d| d.is_existing()) {
            return ctx.reject();
        }
        let has = [ctx.flag(), ctx.flag(), ctx.flag()];
        let vars = ctx.flag();
        let both_dirs = dirs.iter().any(|d| d.is_from()) && dirs.iter().any(|d| !d.is_from());
        let term = ctx.choose(3); // none | update | return
        if term == 1 && (host == 1 || dirs.iter().any(|d| d.is_existing())) {
            return ctx.reject();
        }
        if host == 2 && term != 0 {
            return ctx.reject(); // bare #[parent] + ..update / return is KF-C17-01
        }
        if !has.iter().any(|x| *x) && !vars && term == 0 {
            return ctx.reject();
        }
        let mut ps: Vec<&str> = vec![];
        if has[0] {
            ps.push("attribute(inline)");
        }
        if has[1] {
            ps.push("impl_attribute(cfg(all()))");
        }
        if has[2] {
            ps.push("inner_attribute(allow(unused))");
        }
        if vars {
            ps.push("vars(vz: { 1 }, va: { vz + 1 })");
        }
        // every order of the non-terminal parameters
        let perm = ctx.permutation(ps.len());
        let mut ordered: Vec<&str> = perm.iter().map(|i| ps[*i]).collect();
        match term {
            1 => ordered.push("..Default::default()"),
            2 => ordered.push("return Default::default()"),
            _ => {}
        }
        let _ = both_dirs;
        let err = if fallible { ", Er" } else { "" };
        let mut src = format!("#[{}(T{}| {})]\n", name, err, ordered.join(", "));
        // a second instruction for another counterpart without parameters: must not receive any of the attributes
        let other = if dirs.iter().any(|d| d.is_existing()) || host == 1 { "map" } else { "into_existing" };
        src.push_str(&format!("#[{}(U)]\n", other));
        match host {
            0 => src.push_str("#[ghosts(g: { 6 })]\nstruct S { a: i32, #[ghost({ 5 })] b: i32 }\n"),
            1 => src.push_str("#[ghosts(Y: { S::A })]\nenum S { A, B(i32), #[ghost({ T::A })] C }\n"),
            _ => src.push_str("struct S { a: i32, #[parent] p: P }\n"),
        }
        let tags = vec![format!("name={}", name), format!("host={}", ["struct", "enum", "struct-parent"][host]), format!("attrs={:?}", has), format!("vars={}", vars), format!("term={}", ["none", "update", "return"][term])];
        Some(PCase { input: src, tags, name: name.to_string(), has })
    }
    fn check(&self, c: PCase, choices: &[u32], rep: &Report) {
        rep.eval(1);
        rep.states.add_of(&c.input);
        if c.has.iter().filter(|x| **x).count() >= 2 {
            rep.nontrivial.add_of(&c.input);
        }
        let ts = match expand_ts(&c.input) {
            Ok(Ok(ts)) => ts,
            Ok(Err(m)) => {
                rep.count("rejected", 1);
                rep.outputs.add_of(&m);
                return;
            }
            Err(Xp::Panic { .. }) => {
                rep.count("panicked(C16)", 1);
                return;
            }
            Err(x) => {
                eprintln!("MACHINERY-ERROR: not an item: {}", x.short());
                std::process::exit(2);
            }
        };
        let impls = match analyse(&ts) {
            OutIR::Impls(v, _) => v,
            OutIR::Unparsable(e) => {
                // an attribute / binding spliced into the wrong place typically makes the impl unparsable
                let mut f = fail("placement", choices, &c.input, &c.tags, "unparsable-output", format!("generated code does not parse: {}", e));
                f.observed = trunc(&crate::xp::canon(&ts), 700);
                rep.fail(f);
                return;
            }
        };
        rep.validate(1);
        rep.outputs.add_of(&impls.len());
        let (dirs, fallible) = appl(&c.name).unwrap();
        for i in &impls {
            let tk = match TraitK::of_path(&i.trait_path) {
                Some(t) => t,
                None => continue,
            };
            let arg = i.trait_args.first().cloned().unwrap_or_default();
            let for_t = arg == "T" || arg == "& T";
            // does this impl come from the instruction that carries the parameters?
            let dir_matches = dirs.iter().any(|d| {
                let k = Kind { dir: *d, fallible };
                let want = match (k.dir, k.fallible) {
                    (Dir::FromOwned | Dir::FromRef, false) => TraitK::From,
                    (Dir::FromOwned | Dir::FromRef, true) => TraitK::TryFrom,
                    (Dir::OwnedInto | Dir::RefInto, false) => TraitK::Into,
                    (Dir::OwnedInto | Dir::RefInto, true) => TraitK::TryInto,
                    (_, false) => TraitK::IntoExisting,
                    (_, true) => TraitK::TryIntoExisting,
                };
                let is_ref_impl = if d.is_from() { arg.starts_with("& ") } else { i.self_ty.starts_with("& ") };
                want == tk && is_ref_impl == d.is_ref()
            });
            let mine = for_t && dir_matches;
            let m = match i.methods.first() {
                Some(m) => m,
                None => continue,
            };
            let exp = |on: bool, txt: &str| if mine && on { vec![txt.to_string()] } else { vec![] };
            let mut problems = vec![];
            if m.attrs != exp(c.has[0], ATTR) {
                problems.push(format!("fn attributes are {:?}, expected {:?}", m.attrs, exp(c.has[0], ATTR)));
            }
            if i.impl_attrs != exp(c.has[1], IMPL_ATTR) {
                problems.push(format!("impl attributes are {:?}, expected {:?}", i.impl_attrs, exp(c.has[1], IMPL_ATTR)));
            }
            if m.inner_attrs != exp(c.has[2], INNER_ATTR) {
                problems.push(format!("inner attributes at the head of the fn body are {:?}, expected {:?}", m.inner_attrs, exp(c.has[2], INNER_ATTR)));
            }
            // nowhere else: each attribute text occurs exactly as often as expected in the whole impl
            for (on, txt) in [(c.has[0], ATTR), (c.has[1], IMPL_ATTR), (c.has[2], INNER_ATTR)] {
                let n = i.text.matches(txt).count();
                let want = if mine && on { 1 } else { 0 };
                if n != want {
                    problems.push(format!("`{}` occurs {} time(s) in the impl, expected {}", txt, n, want));
                }
            }
            if !problems.is_empty() {
                let mut tags = c.tags.clone();
                tags.push(format!("impl={:?}", tk));
                let mut f = fail("placement", choices, &c.input, &tags, "wrong-placement", format!("{:?} for {} <{}>: {}", tk, i.self_ty, arg, problems.join("; ")));
                f.observed = trunc(&i.text, 600);
                rep.fail(f);
            }
        }
        if rep.want_sample() && c.has.iter().all(|x| *x) {
            rep.sample(json!({"choices": choices, "input": c.input}));
        }
    }
}

// ---------------------------------------------------------------------------------------------------------------
// part B

#[derive(Clone, Debug)]
pub struct BCaseSpec {
    /// per direction group (from, into, existing): (vars, terminal: 0 none | 1 update | 2 return)
    pub groups: [(bool, usize); 3],
    pub parent: bool, // a bare #[parent] member next to the plain ones (post-init path)
    pub tags: Vec<String>,
}

pub fn gen_b(ctx: &mut Ctx) -> Option<BCaseSpec> {
    let mut groups = [(false, 0usize); 3];
    for g in 0..3 {
        let vars = ctx.flag();
        let term = ctx.choose(3);
        if g == 2 && term == 1 {
            return ctx.reject(); // ..update has no meaning for into_existing
        }
        groups[g] = (vars, term);
    }
    if groups.iter().all(|g| !g.0 && g.1 == 0) {
        return ctx.reject();
    }
    let parent = ctx.flag();
    if parent && (groups[1].1 != 0 || groups[2].1 != 0) {
        return ctx.reject(); // KF-C17-01: bare parent + update/return is already known to be unparsable
    }
    let tags = vec![format!("from={:?}", groups[0]), format!("into={:?}", groups[1]), format!("existing={:?}", groups[2]), format!("parent={}", parent)];
    Some(BCaseSpec { groups, parent, tags })
}

impl BCaseSpec {
    fn params(&self, g: usize, cp: &str) -> String {
        let (vars, term) = self.groups[g];
        let mut ps: Vec<String> = vec![];
        if vars {
            ps.push("vars(vz: { logv(1, 5) }, va: { logv(2, vz + 1) })".into());
        }
        match (g, term) {
            (0, 1) => ps.push("..sbase()".into()),
            // in fallible flavours the quick return is the whole (Result) value of the fn
            (0, 2) => ps.push(if cp == "Tf" { "return Ok(make_s(31))".into() } else { "return make_s(31)".into() }),
            (_, 1) => ps.push(format!("..{}base()", cp.to_lowercase())),
            (1, 2) => ps.push(if cp == "Tf" { "return Ok(make_tf(32))".to_string() } else { "return make_t(32)".to_string() }),
            (_, 2) => ps.push(format!("return make_{}(32)", cp.to_lowercase())),
            _ => {}
        }
        if ps.is_empty() { String::new() } else { format!("| {}", ps.join(", ")) }
    }
    pub fn item_text(&self) -> String {
        let mut o = String::new();
        for (cp, t, e) in [("T", "", ""), ("Tf", "try_", ", Er")] {
            let _ = writeln!(o, "#[{t}from({cp}{e}{})]", self.params(0, cp));
            let _ = writeln!(o, "#[{t}into({cp}{e}{})]", self.params(1, cp));
            let _ = writeln!(o, "#[{t}into_existing({cp}{e}{})]", self.params(2, cp));
        }
        // counterpart-only leaf `u`: from ..update when into has one, else from struct-level ghosts
        // counterpart-only leaf `g`: always from struct-level ghosts (so `..update` and `#[ghosts]` meet - seed C08-02)
        if !self.parent {
            if self.groups[1].1 != 1 {
                o.push_str("#[ghosts(u: { 77 }, g: { 88 })]\n");
            } else {
                o.push_str("#[ghosts(g: { 88 })]\n");
            }
        }
        o.push_str("struct S {\n");
        // member a uses the vars of every direction that has them
        let mut a_attrs = vec![];
        if self.groups[0].0 {
            a_attrs.push("#[from(logv(11, ~ + vz + va))]".to_string());
        }
        if self.groups[1].0 {
            a_attrs.push("#[into(logv(12, ~ + vz + va))]".to_string());
        }
        if self.groups[2].0 {
            a_attrs.push("#[into_existing(logv(13, ~ + vz + va))]".to_string());
        } else if self.groups[1].0 {
            // into_existing would fall back to the #[into(..)] instruction, whose vars do not exist in that impl
            a_attrs.push("#[into_existing(~)]".to_string());
        }
        let _ = writeln!(o, "    {} a: i32,\n    b: i32,", a_attrs.join(" "));
        // S-only leaf `c`: default from the ghost instruction, or from ..update when from has one
        if self.groups[0].1 == 1 {
            o.push_str("    #[ghost] c: i32,\n");
        } else {
            o.push_str("    #[ghost({ 66 })] c: i32,\n");
        }
        // a second S-only leaf always has its own default: `..update` must not replace it (seed C08-04)
        o.push_str("    #[ghost({ 67 })] d: i32,\n");
        if self.parent {
            o.push_str("    #[parent] p: P,\n");
        }
        o.push_str("}\n");
        o
    }
    pub fn render_module(&self) -> String {
        let mut o = String::from("#![allow(unused, non_camel_case_types, clippy::all)]\nuse crate::common::*;\nuse o2o::traits::*;\n");
        let d = "#[derive(Clone, Debug, PartialEq, Default)]";
        let pf = if self.parent { ", pub w: i32" } else { "" };
        let _ = writeln!(o, "{d} pub struct T {{ pub a: i32, pub b: i32, pub u: i32, pub g: i32{pf} }}\n{d} pub struct Tf {{ pub a: i32, pub b: i32, pub u: i32, pub g: i32{pf} }}");
        // (with a bare parent the leaf `u` is simply never mentioned: Into starts from Default, IntoExisting leaves it)
        if self.parent {
            let _ = writeln!(o, "{d}\n#[derive(o2o::o2o)]\n#[from_ref(T)]\n#[into_existing(T)]\n#[try_from_ref(Tf, Er)]\n#[try_into_existing(Tf, Er)]\npub struct P {{ pub w: i32 }}");
        }
        let pw = if self.parent { ", w: 9" } else { "" };
        let _ = writeln!(o, "fn tbase() -> T {{ T {{ a: 801, b: 802, u: 803, g: 805{pw} }} }}\nfn tfbase() -> Tf {{ Tf {{ a: 801, b: 802, u: 803, g: 805{pw} }} }}");
        let sp = if self.parent { ", p: P { w: 9 }" } else { "" };
        let _ = writeln!(o, "fn sbase() -> S {{ S {{ a: 701, b: 702, c: 703, d: 704{sp} }} }}\nfn make_s(m: i32) -> S {{ S {{ a: m, b: m + 1, c: m + 2, d: m + 3{sp} }} }}");
        let _ = writeln!(o, "fn make_t(m: i32) -> T {{ T {{ a: m, b: m + 1, u: m + 2, g: m + 3{pw} }} }}\nfn make_tf(m: i32) -> Tf {{ Tf {{ a: m, b: m + 1, u: m + 2, g: m + 3{pw} }} }}");
        let _ = writeln!(o, "{d}\n#[derive(o2o::o2o)]\n{}", self.item_text());
        let _ = writeln!(o, "pub fn run(r: &mut Rec) {{");
        for (cp, fallible) in [("T", false), ("Tf", true)] {
            let t = if fallible { "try_" } else { "" };
            let wrap = |e: String| if fallible { format!("Ok::<_, Er>({})", e) } else { e };
            let pwv = if self.parent { ", w: 40" } else { "" };
            let spv = if self.parent { ", p: P { w: 40 }" } else { "" };
            // ---- From
            {
                let (vars, term) = self.groups[0];
                let tv = format!("{cp} {{ a: 10, b: 20, u: 30, g: 35{pwv} }}");
                let a = if vars { 10 + 5 + 6 } else { 10 };
                let (exp, log): (String, Vec<i64>) = match term {
                    2 => (format!("make_s(31)"), if vars { vec![1, 2] } else { vec![] }),
                    1 => (format!("S {{ a: {a}, b: 20, c: 703, d: 67{spv} }}"), if vars { vec![1, 2, 11] } else { vec![] }),
                    _ => (format!("S {{ a: {a}, b: 20, c: 66, d: 67{spv} }}"), if vars { vec![1, 2, 11] } else { vec![] }),
                };
                let exp = if term == 2 { exp } else { exp };
                for (lbl, call) in [("from_owned", if fallible { format!("<S as TryFrom<{cp}>>::try_from(t.clone())") } else { format!("<S as From<{cp}>>::from(t.clone())") }), ("from_ref", if fallible { format!("<S as TryFrom<&{cp}>>::try_from(&t)") } else { format!("<S as From<&{cp}>>::from(&t)") })] {
                    let _ = writeln!(o, "  {{ let t = {tv}; take_log(); let got = {call}; r.eq(\"{t}{lbl}/value\", &got, &{}); r.eq(\"{t}{lbl}/vars-log\", &take_log(), &vec!{:?}); }}", wrap(exp.clone()), log);
                }
            }
            // ---- Into
            {
                let (vars, term) = self.groups[1];
                let sv = format!("S {{ a: 1, b: 2, c: 3, d: 4{spv} }}");
                let a = if vars { 1 + 5 + 6 } else { 1 };
                let (exp, log): (String, Vec<i64>) = match term {
                    2 => (format!("make_{}(32)", cp.to_lowercase()), if vars { vec![1, 2] } else { vec![] }),
                    1 => (format!("{cp} {{ a: {a}, b: 2, u: 803, g: 88{pwv} }}"), if vars { vec![1, 2, 12] } else { vec![] }),
                    _ => (format!("{cp} {{ a: {a}, b: 2, u: {}, g: {}{pwv} }}", if self.parent { 0 } else { 77 }, if self.parent { 0 } else { 88 }), if vars { vec![1, 2, 12] } else { vec![] }),
                };
                for (lbl, call) in [("owned_into", if fallible { format!("<S as TryInto<{cp}>>::try_into(s.clone())") } else { format!("<S as Into<{cp}>>::into(s.clone())") }), ("ref_into", if fallible { format!("<&S as TryInto<{cp}>>::try_into(&s)") } else { format!("<&S as Into<{cp}>>::into(&s)") })] {
                    let _ = writeln!(o, "  {{ let s = {sv}; take_log(); let got = {call}; r.eq(\"{t}{lbl}/value\", &got, &{}); r.eq(\"{t}{lbl}/vars-log\", &take_log(), &vec!{:?}); }}", wrap(exp.clone()), log);
                }
            }
            // ---- IntoExisting
            {
                let (vars, term) = self.groups[2];
                let sv = format!("S {{ a: 1, b: 2, c: 3, d: 4{spv} }}");
                let a = if vars { 1 + 5 + 6 } else { 1 };
                let prew = if self.parent { ", w: 904" } else { "" };
                let pre = format!("{cp} {{ a: 901, b: 902, u: 903, g: 905{prew} }}");
                let (exp, log): (String, Vec<i64>) = match term {
                    2 => (format!("make_{}(32)", cp.to_lowercase()), if vars { vec![1, 2] } else { vec![] }),
                    // `u` comes from the struct-level ghosts when there are any, else it is not mentioned: untouched
                    _ => (format!("{cp} {{ a: {a}, b: 2, u: {}, g: {}{pwv} }}", if self.groups[1].1 != 1 && !self.parent { 77 } else { 903 }, if self.parent { 905 } else { 88 }), if vars { vec![1, 2, 13] } else { vec![] }),
                };
                for (lbl, owned) in [("owned_into_existing", true), ("ref_into_existing", false)] {
                    let sty = if owned { "S" } else { "&S" };
                    let sx = if owned { "s.clone()" } else { "&s" };
                    if fallible {
                        let _ = writeln!(o, "  {{ let s = {sv}; let mut o = {pre}; take_log(); let res = <{sty} as TryIntoExisting<{cp}>>::try_into_existing({sx}, &mut o); r.eq(\"{t}{lbl}/value\", &res.map(|_| o), &Ok::<_, Er>({exp})); r.eq(\"{t}{lbl}/vars-log\", &take_log(), &vec!{:?}); }}", log);
                    } else {
                        let _ = writeln!(o, "  {{ let s = {sv}; let mut o = {pre}; take_log(); <{sty} as IntoExisting<{cp}>>::into_existing({sx}, &mut o); r.eq(\"{lbl}/value\", &o, &{exp}); r.eq(\"{lbl}/vars-log\", &take_log(), &vec!{:?}); }}", log);
                    }
                }
            }
        }
        o.push_str("}\n");
        o.replace("&vec![]", "&Vec::<i64>::new()")
    }
}

// ---------------------------------------------------------------------------------------------------------------
// part B on an enum host: vars / quick return around the generated `match`

#[derive(Clone, Debug)]
pub struct ECaseSpec {
    /// per direction group (from, into): (vars, quick return)
    pub groups: [(bool, bool); 2],
    pub named: bool,
    pub tags: Vec<String>,
}

pub fn gen_e(ctx: &mut Ctx) -> Option<ECaseSpec> {
    let mut groups = [(false, false); 2];
    for g in 0..2 {
        groups[g] = (ctx.flag(), ctx.flag());
    }
    if groups.iter().all(|g| !g.0 && !g.1) {
        return ctx.reject();
    }
    let named = ctx.flag();
    let tags = vec!["host=enum".to_string(), format!("from={:?}", groups[0]), format!("into={:?}", groups[1]), format!("named={}", named)];
    Some(ECaseSpec { groups, named, tags })
}

impl ECaseSpec {
    fn params(&self, g: usize, cp: &str) -> String {
        let (vars, ret) = self.groups[g];
        let mut ps: Vec<String> = vec![];
        if vars {
            ps.push("vars(vz: { logv(1, 5) }, va: { logv(2, vz + 1) })".into());
        }
        if ret {
            let v = if g == 0 { "S::B".to_string() } else { format!("{}::B", cp) };
            ps.push(if cp == "Tf" { format!("return Ok({})", v) } else { format!("return {}", v) });
        }
        if ps.is_empty() { String::new() } else { format!("| {}", ps.join(", ")) }
    }
    pub fn item_text(&self) -> String {
        let mut o = String::new();
        for (cp, t, e) in [("T", "", ""), ("Tf", "try_", ", Er")] {
            let _ = writeln!(o, "#[{t}from({cp}{e}{})]", self.params(0, cp));
            let _ = writeln!(o, "#[{t}into({cp}{e}{})]", self.params(1, cp));
        }
        let mut a_attrs = vec![];
        a_attrs.push(if self.groups[0].0 { "#[from(logv(11, ~.clone() + vz + va))]".to_string() } else { "#[from(~.clone())]".to_string() });
        a_attrs.push(if self.groups[1].0 { "#[into(logv(12, ~.clone() + vz + va))]".to_string() } else { "#[into(~.clone())]".to_string() });
        if self.named {
            let _ = writeln!(o, "enum S {{ A {{ {} x: i32 }}, B }}", a_attrs.join(" "));
        } else {
            let _ = writeln!(o, "enum S {{ A({} i32), B }}", a_attrs.join(" "));
        }
        o
    }
    pub fn render_module(&self) -> String {
        let mut o = String::from("#![allow(unused, non_camel_case_types, clippy::all)]\nuse crate::common::*;\n");
        let d = "#[derive(Clone, Debug, PartialEq)]";
        let body = if self.named { "A { x: i32 }, B" } else { "A(i32), B" };
        let _ = writeln!(o, "{d} pub enum T {{ {body} }}\n{d} pub enum Tf {{ {body} }}");
        let _ = writeln!(o, "{d}\n#[derive(o2o::o2o)]\n{}", self.item_text().replace("enum S", "pub enum S"));
        let mk = |ty: &str, v: i64| if self.named { format!("{}::A {{ x: {} }}", ty, v) } else { format!("{}::A({})", ty, v) };
        let _ = writeln!(o, "pub fn run(r: &mut Rec) {{");
        for (cp, fallible) in [("T", false), ("Tf", true)] {
            let t = if fallible { "try_" } else { "" };
            let wrap = |e: String| if fallible { format!("Ok::<_, Er>({})", e) } else { e };
            {
                let (vars, ret) = self.groups[0];
                let (exp, log): (String, Vec<i64>) = if ret { ("S::B".into(), if vars { vec![1, 2] } else { vec![] }) } else { (mk("S", if vars { 10 + 5 + 6 } else { 10 }), if vars { vec![1, 2, 11] } else { vec![] }) };
                let tv = mk(cp, 10);
                for (lbl, call) in [("from_owned", if fallible { format!("<S as TryFrom<{cp}>>::try_from(t.clone())") } else { format!("<S as From<{cp}>>::from(t.clone())") }), ("from_ref", if fallible { format!("<S as TryFrom<&{cp}>>::try_from(&t)") } else { format!("<S as From<&{cp}>>::from(&t)") })] {
                    let _ = writeln!(o, "  {{ let t = {tv}; take_log(); let got = {call}; r.eq(\"{t}{lbl}/value\", &got, &{}); r.eq(\"{t}{lbl}/vars-log\", &take_log(), &vec!{:?}); }}", wrap(exp.clone()), log);
                }
                // the unit variant: vars are still evaluated (before the match), no member expression runs
                let logb: Vec<i64> = if vars { vec![1, 2] } else { vec![] };
                let call = if fallible { format!("<S as TryFrom<{cp}>>::try_from({cp}::B)") } else { format!("<S as From<{cp}>>::from({cp}::B)") };
                let _ = writeln!(o, "  {{ take_log(); let got = {call}; r.eq(\"{t}from_owned/unit-variant\", &got, &{}); r.eq(\"{t}from_owned/unit-variant-log\", &take_log(), &vec!{:?}); }}", wrap("S::B".into()), logb);
            }
            {
                let (vars, ret) = self.groups[1];
                let (exp, log): (String, Vec<i64>) = if ret { (format!("{}::B", cp), if vars { vec![1, 2] } else { vec![] }) } else { (mk(cp, if vars { 1 + 5 + 6 } else { 1 }), if vars { vec![1, 2, 12] } else { vec![] }) };
                let sv = mk("S", 1);
                for (lbl, call) in [("owned_into", if fallible { format!("<S as TryInto<{cp}>>::try_into(s.clone())") } else { format!("<S as Into<{cp}>>::into(s.clone())") }), ("ref_into", if fallible { format!("<&S as TryInto<{cp}>>::try_into(&s)") } else { format!("<&S as Into<{cp}>>::into(&s)") })] {
                    let _ = writeln!(o, "  {{ let s = {sv}; take_log(); let got = {call}; r.eq(\"{t}{lbl}/value\", &got, &{}); r.eq(\"{t}{lbl}/vars-log\", &take_log(), &vec!{:?}); }}", wrap(exp.clone()), log);
                }
            }
        }
        o.push_str("}\n");
        o.replace("&vec![]", "&Vec::<i64>::new()")
    }
}

/// unit-struct hosts (seed C08-10): every field of the counterpart comes from `..update` (hint `as {}`), or from
/// `#[ghosts]` + `..update`, optionally with vars the update expression reads
pub fn unit_update_modules() -> Vec<(String, Vec<String>, Vec<String>)> {
    let mut v = vec![];
    let d = "#[derive(Clone, Debug, PartialEq, Default)]";
    for hint in [true, false] {
        for ghosts in [false, true] {
            if !hint {
                // without a hint a unit struct maps to a unit struct (no literal, nothing to update), and with NAMED ghosts it
                // is rendered as a tuple literal `T(a: 5)` - the wrong-designator family of KF-C17-06, not C08's business
                continue;
            }
            for vars in [false, true] {
                let h = if hint { " as {}" } else { "" };
                let upd = |cp: &str| if vars { format!("vars(vz: {{ logv(1, 5) }}), ..{cp} {{ b: vz, ..{}base() }}", cp.to_lowercase()) } else { format!("..{}base()", cp.to_lowercase()) };
                let mut item = format!("#[into(T{h}| {})]\n#[try_into(Tf{h}, Er| {})]\n", upd("T"), upd("Tf"));
                if ghosts {
                    item.push_str("#[ghosts(a: { 5 })]\n");
                }
                item.push_str("pub struct S;\n");
                let mut m = String::from("#![allow(unused, non_camel_case_types, clippy::all)]\nuse crate::common::*;\nuse o2o::traits::*;\n");
                m.push_str(&format!("{d} pub struct T {{ pub a: i32, pub b: i32, pub c: i32 }}\n{d} pub struct Tf {{ pub a: i32, pub b: i32, pub c: i32 }}\n"));
                m.push_str("fn tbase() -> T { T { a: 801, b: 802, c: 803 } }\nfn tfbase() -> Tf { Tf { a: 801, b: 802, c: 803 } }\n");
                m.push_str(&format!("#[derive(Clone, Debug, PartialEq, Default, o2o::o2o)]\n{}", item));
                let (a, b) = (if ghosts { 5 } else { 801 }, if vars { 5 } else { 802 });
                let log = if vars { "vec![1]" } else { "Vec::<i64>::new()" };
                m.push_str("pub fn run(r: &mut Rec) {\n");
                m.push_str(&format!("  {{ take_log(); let got = <S as Into<T>>::into(S); r.eq(\"owned_into/value\", &got, &T {{ a: {a}, b: {b}, c: 803 }}); r.eq(\"owned_into/vars-log\", &take_log(), &{log}); }}\n"));
                m.push_str(&format!("  {{ take_log(); let got = <&S as Into<T>>::into(&S); r.eq(\"ref_into/value\", &got, &T {{ a: {a}, b: {b}, c: 803 }}); r.eq(\"ref_into/vars-log\", &take_log(), &{log}); }}\n"));
                m.push_str(&format!("  {{ take_log(); let got = <S as TryInto<Tf>>::try_into(S); r.eq(\"try_owned_into/value\", &got, &Ok::<_, Er>(Tf {{ a: {a}, b: {b}, c: 803 }})); r.eq(\"try_owned_into/vars-log\", &take_log(), &{log}); }}\n"));
                m.push_str(&format!("  {{ take_log(); let got = <&S as TryInto<Tf>>::try_into(&S); r.eq(\"try_ref_into/value\", &got, &Ok::<_, Er>(Tf {{ a: {a}, b: {b}, c: 803 }})); r.eq(\"try_ref_into/vars-log\", &take_log(), &{log}); }}\n"));
                m.push_str("}\n");
                v.push((m, vec![item], vec!["host=unit-struct".to_string(), format!("hint={}", hint), format!("ghosts={}", ghosts), format!("vars={}", vars)]));
            }
        }
    }
    v
}

/// a quick return replaces the whole body, so it also lifts what only a body needs: a tuple struct mapped to a NAMED
/// counterpart (`as {}`) without any member names is accepted when - and only because - the instruction returns early
/// (seed C08-12: the exemption was lost for the into_existing kinds)
pub fn return_unnamed_modules() -> Vec<(String, Vec<String>, Vec<String>)> {
    let mut v = vec![];
    let d = "#[derive(Clone, Debug, PartialEq, Default)]";
    for which in 0..4usize {
        // 0 = from only, 1 = into only, 2 = into_existing only, 3 = all three
        let has = |g: usize| which == 3 || which == g;
        let mut item = String::new();
        for (cp, t, e) in [("T", "", ""), ("Tf", "try_", ", Er")] {
            let ok = |x: String| if cp == "Tf" { format!("Ok({})", x) } else { x };
            if has(0) {
                item.push_str(&format!("#[{t}from({cp} as {{}}{e}| return {})]\n", ok("S(31, 32)".into())));
            }
            if has(1) {
                item.push_str(&format!("#[{t}into({cp} as {{}}{e}| return {})]\n", ok(format!("{cp} {{ a: 41, b: 42 }}"))));
            }
            if has(2) {
                item.push_str(&format!("#[{t}into_existing({cp} as {{}}{e}| return {cp} {{ a: 51, b: 52 }})]\n"));
            }
        }
        item.push_str("pub struct S(pub i32, pub i32);\n");
        let mut m = String::from("#![allow(unused, non_camel_case_types, clippy::all)]\nuse crate::common::*;\nuse o2o::traits::*;\n");
        m.push_str(&format!("{d} pub struct T {{ pub a: i32, pub b: i32 }}\n{d} pub struct Tf {{ pub a: i32, pub b: i32 }}\n"));
        m.push_str(&format!("{d}\n#[derive(o2o::o2o)]\n{}", item));
        m.push_str("pub fn run(r: &mut Rec) {\n");
        for (cp, fallible) in [("T", false), ("Tf", true)] {
            let l = if fallible { "try_" } else { "" };
            let w = |x: &str| if fallible { format!("Ok::<_, Er>({})", x) } else { x.to_string() };
            if has(0) {
                let (o, rf) = if fallible { (format!("<S as TryFrom<{cp}>>::try_from"), format!("<S as TryFrom<&{cp}>>::try_from")) } else { (format!("<S as From<{cp}>>::from"), format!("<S as From<&{cp}>>::from")) };
                m.push_str(&format!("  {{ let t = {cp} {{ a: 1, b: 2 }}; r.eq(\"{l}from_owned\", &{o}(t.clone()), &{}); r.eq(\"{l}from_ref\", &{rf}(&t), &{}); }}\n", w("S(31, 32)"), w("S(31, 32)")));
            }
            if has(1) {
                let (o, rf) = if fallible { (format!("<S as TryInto<{cp}>>::try_into"), format!("<&S as TryInto<{cp}>>::try_into")) } else { (format!("<S as Into<{cp}>>::into"), format!("<&S as Into<{cp}>>::into")) };
                let e = format!("{cp} {{ a: 41, b: 42 }}");
                m.push_str(&format!("  {{ let s = S(1, 2); r.eq(\"{l}owned_into\", &{o}(s.clone()), &{}); r.eq(\"{l}ref_into\", &{rf}(&s), &{}); }}\n", w(&e), w(&e)));
            }
            if has(2) {
                let e = format!("{cp} {{ a: 51, b: 52 }}");
                if fallible {
                    m.push_str(&format!("  {{ let s = S(1, 2); let mut o1 = {cp} {{ a: 900, b: 901 }}; let r1 = <S as TryIntoExisting<{cp}>>::try_into_existing(s.clone(), &mut o1); r.eq(\"try_owned_into_existing\", &r1.map(|_| o1), &Ok::<_, Er>({e})); let mut o2 = {cp} {{ a: 900, b: 901 }}; let r2 = <&S as TryIntoExisting<{cp}>>::try_into_existing(&s, &mut o2); r.eq(\"try_ref_into_existing\", &r2.map(|_| o2), &Ok::<_, Er>({e})); }}\n"));
                } else {
                    m.push_str(&format!("  {{ let s = S(1, 2); let mut o1 = {cp} {{ a: 900, b: 901 }}; <S as IntoExisting<{cp}>>::into_existing(s.clone(), &mut o1); r.eq(\"owned_into_existing\", &o1, &{e}); let mut o2 = {cp} {{ a: 900, b: 901 }}; <&S as IntoExisting<{cp}>>::into_existing(&s, &mut o2); r.eq(\"ref_into_existing\", &o2, &{e}); }}\n"));
                }
            }
        }
        m.push_str("}\n");
        v.push((m, vec![item], vec!["host=unnamed-tuple-as-named".to_string(), format!("returning={}", ["from", "into", "into_existing", "all"][which])]));
    }
    v
}

fn nested_bounds(tier: &str) -> (crate::sem_flat::FlatOpts, Option<usize>, usize, Option<usize>) {
    use crate::sem_flat::FlatOpts;
    if tier == "quick" {
        (FlatOpts { max_members: 3, max_ghosts: 1, max_depth: 2, update: true, ..FlatOpts::DEF }, Some(3), 2, Some(3))
    } else {
        (FlatOpts { max_members: 3, max_ghosts: 1, max_depth: 3, update: true, ..FlatOpts::DEF }, Some(5), 3, Some(5))
    }
}

pub fn run(tier: &str) -> i32 {
    let rep = Report::new("C08", tier, "model_checking");
    rep.set_rule("part A (placement, structural): each of the 24 trait-instruction names x {named struct, enum with ghosts, struct with bare parent + ghosts} x every subset of {attribute, impl_attribute, inner_attribute, vars} in EVERY order x terminal {none, ..update, return} + a parameterless instruction for a second counterpart: in every impl the instruction produces (M_appl) the attribute is an outer attribute of the fn, the impl_attribute of the impl, the inner_attribute an inner attribute at the head of the fn body, each exactly once and nowhere else; impls of the other instruction carry none. Part B (behaviour through rustc + execution): per direction group {from, into, into_existing} x {vars or not} x {none, ..update, return} x {bare #[parent] member or not}, all 12 kinds: vars expressions call a logging helper - the log must be [vz, va, member expression] (each once, in DECLARATION order - the names are declared in non-alphabetical order -, vars first) and member expressions read both; ..base() supplies exactly the leaves no member provides; return make(M) is the whole result (*other == make(M) for into_existing); the same for an enum host (tuple / named variant): vars are evaluated once before the generated match - also when the unit variant is converted -, quick return replaces the match; `update-child` / `update-parent`: the flattening cases of C03 (#[child] + #[child_parents], parameterised #[parent(..)]) with `..Default::default()` on the conversions and one more field in EVERY struct of the result - the nested ones included - that only the update expression can supply (0 after Into / From, untouched by IntoExisting); `update-unit`: unit-struct hosts whose counterpart fields all come from `..update` (hint `as {}`) or from #[ghosts] + `..update`, with and without vars read by the update expression; `return-unnamed`: a tuple struct mapped to a named counterpart without member names, legal only because every instruction returns early (from / into / into_existing alone and together). states = distinct inputs / test modules");
    rep.assume("the statement's `on every impl the instruction produces` is read with M_appl; bare #[parent] is combined with vars only (its combination with ..update / return is KF-C17-01)");
    let caps = Caps::from_env(if tier == "quick" { 200.0 } else { 1200.0 });
    run_space(&Placement, None, &caps, &rep);
    let items: Mutex<Vec<BItem>> = Mutex::new(vec![]);
    let st = explore(gen_b, None, &caps, |ch, c| {
        items.lock().unwrap().push(BItem { space: "behaviour".into(), choices: ch.to_vec(), tags: c.tags.clone(), inputs: vec![c.item_text()], module: c.render_module(), nontrivial: true });
    });
    rep.add_stats("behaviour", "full", &st);
    let st = explore(gen_e, None, &caps, |ch, c| {
        items.lock().unwrap().push(BItem { space: "behaviour-enum".into(), choices: ch.to_vec(), tags: c.tags.clone(), inputs: vec![c.item_text()], module: c.render_module(), nontrivial: true });
    });
    rep.add_stats("behaviour-enum", "full", &st);
    // ..update and the NESTED literals a conversion builds (seed C08-09): flattening cases whose counterpart structs -
    // every nested one included - have a field that only the update expression can supply
    let (fo, fb, pl, pb) = nested_bounds(tier);
    let st = crate::explore::explore2(|ctx| crate::sem_flat::gen_child(ctx, &fo), fb, None, &caps, |ch, c| {
        items.lock().unwrap().push(BItem { space: "update-child".into(), choices: ch.to_vec(), tags: c.tags.clone(), inputs: vec![c.item("S", true).render()], module: c.render_module(), nontrivial: true });
    });
    rep.add_stats("update-child", &fb.map(|b| format!("dev({})", b)).unwrap_or("full".into()), &st);
    let st = crate::explore::explore2(|ctx| crate::sem_flat::gen_parent_upd(ctx, pl), pb, None, &caps, |ch, c| {
        items.lock().unwrap().push(BItem { space: "update-parent".into(), choices: ch.to_vec(), tags: c.tags.clone(), inputs: vec![c.item("S", true).render()], module: c.render_module(), nontrivial: true });
    });
    rep.add_stats("update-parent", &pb.map(|b| format!("dev({})", b)).unwrap_or("full".into()), &st);
    let uu = unit_update_modules();
    let nu = uu.len() as u64;
    for (i, (module, inputs, tags)) in uu.into_iter().enumerate() {
        items.lock().unwrap().push(BItem { space: "update-unit".into(), choices: vec![i as u32], tags, inputs, module, nontrivial: true });
    }
    rep.add_stats("update-unit", "full (fixed layouts)", &crate::explore::ExploreStats { leaves: nu, transitions: nu, ..Default::default() });
    let ru = return_unnamed_modules();
    let nr = ru.len() as u64;
    for (i, (module, inputs, tags)) in ru.into_iter().enumerate() {
        items.lock().unwrap().push(BItem { space: "return-unnamed".into(), choices: vec![i as u32], tags, inputs, module, nontrivial: true });
    }
    rep.add_stats("return-unnamed", "full (fixed layouts)", &crate::explore::ExploreStats { leaves: nr, transitions: nr, ..Default::default() });
    if let Err(e) = run_items("C08", items.into_inner().unwrap(), &rep, BOpts { no_std: false, features: "", name: "c08".into(), keep: std::env::var("VERIF_KEEP").is_ok() }) {
        eprintln!("MACHINERY-ERROR: {}", e);
        return 2;
    }
    rep.finish()
}

pub fn replay(f: &Failure) -> i32 {
    if f.space == "placement" {
        return super::replay_space(&Placement, f, "C08");
    }
    let mut obs = vec![];
    for round in 0..2 {
        let mk = |r: Option<(Vec<String>, String, String)>, full: Vec<u32>| -> Option<BItem> {
            match r {
                Some((tags, input, module)) if full == f.choices && input == f.input => Some(BItem { space: f.space.clone(), choices: full, tags, inputs: vec![input], module, nontrivial: true }),
                _ => None,
            }
        };
        let item = match f.space.as_str() {
            "behaviour-enum" => {
                let (c, full) = replay_one(gen_e, &f.choices);
                mk(c.map(|c| (c.tags.clone(), c.item_text(), c.render_module())), full)
            }
            "return-unnamed" => return_unnamed_modules().into_iter().enumerate().find(|(i, _)| vec![*i as u32] == f.choices).map(|(_, (module, inputs, tags))| BItem { space: f.space.clone(), choices: f.choices.clone(), tags, inputs, module, nontrivial: true }),
            "update-unit" => unit_update_modules().into_iter().enumerate().find(|(i, _)| vec![*i as u32] == f.choices).map(|(_, (module, inputs, tags))| BItem { space: f.space.clone(), choices: f.choices.clone(), tags, inputs, module, nontrivial: true }),
            "update-child" => {
                let mut got = None;
                for t in ["quick", "thorough"] {
                    let fo = nested_bounds(t).0;
                    let (c, full) = replay_one(|ctx| crate::sem_flat::gen_child(ctx, &fo), &f.choices);
                    got = got.or(mk(c.map(|c| (c.tags.clone(), c.item("S", true).render(), c.render_module())), full));
                }
                got
            }
            "update-parent" => {
                let mut got = None;
                for t in ["quick", "thorough"] {
                    let pl = nested_bounds(t).2;
                    let (c, full) = replay_one(|ctx| crate::sem_flat::gen_parent_upd(ctx, pl), &f.choices);
                    got = got.or(mk(c.map(|c| (c.tags.clone(), c.item("S", true).render(), c.render_module())), full));
                }
                got
            }
            _ => {
                let (c, full) = replay_one(gen_b, &f.choices);
                mk(c.map(|c| (c.tags.clone(), c.item_text(), c.render_module())), full)
            }
        };
        let item = match item {
            Some(i) => i,
            None => {
                eprintln!("MACHINERY-ERROR: cannot re-render {:?}", f.choices);
                return 2;
            }
        };
        let rep = Report::new("C08", "quick", "model_checking");
        if let Err(e) = run_items("C08", vec![item], &rep, BOpts { no_std: false, features: "", name: format!("c08-replay{}", round), keep: false }) {
            eprintln!("MACHINERY-ERROR: {}", e);
            return 2;
        }
        obs.push(rep.failures.lock().unwrap().iter().map(|x| (x.kind.clone(), x.detail.clone())).collect::<Vec<_>>());
    }
    if obs[0] != obs[1] {
        eprintln!("MACHINERY-ERROR: non-deterministic replay");
        return 2;
    }
    if obs[0].is_empty() {
        println!("replay: no failure on this tree");
        return 0;
    }
    for (k, d) in &obs[0] {
        println!("REPLAYED property=C08 kind={} detail={}", k, d);
    }
    println!("input:\n{}", f.input);
    1
}
