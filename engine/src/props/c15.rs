//! C15 - documented misuse is reported as a compile error, completely, in any context (fault enumeration).

use super::{fail, replay_space, run_space, Space};
use crate::explore::{explore, Caps, Ctx};
use crate::faults::{gen, names_problem, FaultCase};
use crate::report::{Failure, Report};
use crate::xp::{expand, Xp};
use serde_json::json;

pub struct Inject {
    pub k: usize,
}

impl Space for Inject {
    type Case = FaultCase;
    fn name(&self) -> String {
        format!("inject({})", self.k)
    }
    fn gen(&self, ctx: &mut Ctx) -> Option<FaultCase> {
        gen(ctx, self.k)
    }
    fn check(&self, c: FaultCase, choices: &[u32], rep: &Report) {
        let input = c.item.render();
        let space = self.name();
        rep.eval(1);
        rep.states.add_of(&input);
        if c.faults.len() > 1 {
            rep.nontrivial.add_of(&input);
        }
        let x = expand(&input);
        rep.validate(1);
        rep.outputs.add_of(&x);
        match &x {
            Xp::Ok(_) => {
                if !c.faults.is_empty() {
                    let mut f = fail(&space, choices, &input, &c.tags, "accepted-misuse", format!("accepted although it breaks: {}", c.faults.iter().map(|(f, p)| format!("{}@{}", f.id, p)).collect::<Vec<_>>().join(", ")));
                    f.expected = "Err(diagnostics)".into();
                    rep.fail(f);
                }
            }
            Xp::Err(msgs) => {
                if c.faults.is_empty() {
                    let mut f = fail(&space, choices, &input, &c.tags, "rejected-valid-input", msgs.join(" | "));
                    f.expected = "the fault-free host is accepted".into();
                    rep.fail(f);
                }
                for (flt, _pos) in &c.faults {
                    if !names_problem(msgs, flt) {
                        let mut tags = c.tags.clone();
                        tags.push(format!("missing={}", flt.id));
                        let mut f = fail(&space, choices, &input, &tags, "missing-diagnostic", format!("no diagnostic names the misuse '{}' ({}){}", flt.id, flt.class, if c.faults.iter().any(|(g, _)| g.parse_stage && g.id != flt.id) { " [another injected fault is diagnosed at parse stage]" } else { "" }));
                        f.expected = format!("a message containing one of {:?}", flt.salient);
                        f.observed = format!("{:?}", msgs);
                        rep.fail(f);
                    }
                }
            }
            Xp::Panic { msg, loc } => {
                let mut f = fail(&space, choices, &input, &c.tags, "panic", format!("{} @ {}", msg, loc.split(':').next().unwrap_or("")));
                f.expected = "Err(diagnostics)".into();
                rep.fail(f);
            }
            Xp::NotAnItem(e) => {
                eprintln!("MACHINERY-ERROR: fault injection produced a non-item: {} :: {}", e, input);
                std::process::exit(2);
            }
        }
        if rep.want_sample() && c.faults.len() == 2 && choices.iter().filter(|x| **x != 0).count() >= 3 {
            rep.sample(json!({"choices": choices, "input": input, "faults": c.faults.iter().map(|(f, p)| format!("{}@{}", f.id, p)).collect::<Vec<_>>(), "observed": x.short()}));
        }
    }
}

pub fn run(tier: &str) -> i32 {
    let rep = Report::new("C15", tier, "fault_enumeration");
    rep.set_rule("6 valid hosts (named struct x 2 counterparts, tuple struct with `as {}`, flattened struct, parent struct, enum with payloads, enum -> primitive) x the catalogue of ~60 concrete injections covering every misuse class of the statement (no trait instruction, duplicate instruction, missing/superfluous error type, 10 dedicated-to-unknown forms, duplicate default/dedicated for every instruction family, misplaced/misnamed names in bare and o2o(..) form, ghost without default, child without child_parents / missing path prefix, tuple/named mismatch, untyped nested parent, trait-level and member-level repeat conflicts, permeating repeat on a struct) x EVERY admissible position (type level: every index of the attribute list; member level: every member) and every PAIR of injections at every position x every surrounding valid instruction for a further counterpart (5 forms, first/last); thorough adds triples up to deviation bound 4. Oracle M_diag: verdict Err, and for every injected fault one diagnostic containing its salient key words; the fault-free hosts and every semantic struct case (valid by construction) must be accepted. states = distinct inputs; non-trivial = inputs with two simultaneous faults");
    rep.assume("a diagnostic `names the problem` when it contains the salient identifiers/key words of the class (OR of AND-sets), never full wording");
    let caps = Caps::from_env(if tier == "quick" { 120.0 } else { 1200.0 });
    run_space(&Inject { k: 0 }, None, &caps, &rep);
    run_space(&Inject { k: 1 }, None, &caps, &rep);
    run_space(&Inject { k: 2 }, None, &caps, &rep);
    if tier != "quick" {
        run_space(&Inject { k: 3 }, Some(4), &caps, &rep);
    }
    // "an input that breaks none is never rejected": the semantic struct space is valid by construction
    {
        let o = crate::sem_struct::Opts { max_n: if tier == "quick" { 2 } else { 3 }, menu: crate::sem_struct::MENU_FULL, max_ghosts: 1, allow_update: true, permute_idx: true };
        let st = explore(
            |ctx| crate::sem_struct::gen(ctx, &o),
            None,
            &caps,
            |choices, c| {
                let fl = if c.form == crate::sem_struct::CpForm::BareTuple { crate::sem_struct::Flavour::Infallible } else { crate::sem_struct::Flavour::Both };
                let input = c.item("S", fl).render();
                rep.eval(1);
                rep.states.add_of(&input);
                let x = expand(&input);
                rep.validate(1);
                if let Xp::Err(m) = &x {
                    let mut f = fail("accept-only/sem-struct", choices, &input, &c.tags, "rejected-valid-input", m.iter().skip(1).cloned().collect::<Vec<_>>().join(" | "));
                    f.expected = "accepted (the input breaks no documented rule)".into();
                    rep.fail(f);
                }
            },
        );
        rep.add_stats("accept-only/sem-struct", "full", &st);
    }
    rep.finish()
}

pub fn replay(f: &Failure) -> i32 {
    if f.space.starts_with("inject(") {
        let k: usize = f.space.trim_start_matches("inject(").trim_end_matches(')').parse().unwrap_or(1);
        return replay_space(&Inject { k }, f, "C15");
    }
    let x = expand(&f.input);
    println!("input:\n{}\nobserved: {}", f.input, x.short());
    if matches!(x, Xp::Err(_)) { 1 } else { 0 }
}
