//! C15 - documented misuse is reported as a compile error, completely, in any context (fault enumeration).

use super::{fail, replay_space, run_space, Space};
use crate::explore::{explore, Caps, Ctx};
use crate::faults::{gen, names_problem, FaultCase};
use crate::report::{Failure, Report};
use crate::xp::{expand, Xp};
use serde_json::json;

pub struct Inject {
    pub k: usize,
}

impl Space for Inject {
    type Case = FaultCase;
    fn name(&self) -> String {
        format!("inject({})", self.k)
    }
    fn gen(&self, ctx: &mut Ctx) -> Option<FaultCase> {
        gen(ctx, self.k)
    }
    fn check(&self, c: FaultCase, choices: &[u32], rep: &Report) {
        let input = c.item.render();
        let space = self.name();
        rep.eval(1);
        rep.states.add_of(&input);
        if c.faults.len() > 1 {
            rep.nontrivial.add_of(&input);
        }
        let x = expand(&input);
        rep.validate(1);
        rep.outputs.add_of(&x);
        match &x {
            Xp::Ok(_) => {
                if !c.faults.is_empty() {
                    let mut f = fail(&space, choices, &input, &c.tags, "accepted-misuse", format!("accepted although it breaks: {}", c.faults.iter().map(|(f, p)| format!("{}@{}", f.id, p)).collect::<Vec<_>>().join(", ")));
                    f.expected = "Err(diagnostics)".into();
                    rep.fail(f);
                }
            }
            Xp::Err(msgs) => {
                if c.faults.is_empty() {
                    let mut f = fail(&space, choices, &input, &c.tags, "rejected-valid-input", msgs.join(" | "));
                    f.expected = "the fault-free host is accepted".into();
                    rep.fail(f);
                }
                for (flt, _pos) in &c.faults {
                    if !names_problem(msgs, flt) {
                        let mut tags = c.tags.clone();
                        tags.push(format!("missing={}", flt.id));
                        let mut f = fail(&space, choices, &input, &tags, "missing-diagnostic", format!("no diagnostic names the misuse '{}' ({}){}", flt.id, flt.class, if c.faults.iter().any(|(g, _)| g.parse_stage && g.id != flt.id) { " [another injected fault is diagnosed at parse stage]" } else { "" }));
                        f.expected = format!("a message containing one of {:?}", flt.salient);
                        f.observed = format!("{:?}", msgs);
                        rep.fail(f);
                    }
                }
            }
            Xp::Panic { msg, loc } => {
                let mut f = fail(&space, choices, &input, &c.tags, "panic", format!("{} @ {}", msg, loc.split(':').next().unwrap_or("")));
                f.expected = "Err(diagnostics)".into();
                rep.fail(f);
            }
            Xp::NotAnItem(e) => {
                eprintln!("MACHINERY-ERROR: fault injection produced a non-item: {} :: {}", e, input);
                std::process::exit(2);
            }
        }
        if rep.want_sample() && c.faults.len() == 2 && choices.iter().filter(|x| **x != 0).count() >= 3 {
            rep.sample(json!({"choices": choices, "input": input, "faults": c.faults.iter().map(|(f, p)| format!("{}@{}", f.id, p)).collect::<Vec<_>>(), "observed": x.short()}));
        }
    }
}

/// The "tuple / named mismatch without member names" rule, both ways and exhaustively: a positional member mapped to a
/// named counterpart (`as {}`) must carry, for every conversion kind the trait instructions request, a member instruction
/// that reaches that kind through the documented fallback chain (M_prec) - then, and only then, the input is accepted.
pub struct NameRule;

pub struct NCase {
    pub input: String,
    pub uncovered: Vec<String>,
    pub tags: Vec<String>,
}

impl Space for NameRule {
    type Case = NCase;
    fn name(&self) -> String {
        "name-rule".into()
    }
    fn gen(&self, ctx: &mut Ctx) -> Option<NCase> {
        use crate::model::{all_trait_names, appl, member_map_names, winner, Kind};
        let tnames = all_trait_names();
        let mnames = member_map_names();
        let host = ctx.choose(2); // tuple struct | tuple variant with a variant-level hint
        let t = tnames[ctx.choose(tnames.len())];
        let (tdirs, tf) = appl(t).unwrap();
        if host == 1 && tdirs.iter().any(|d| d.is_existing()) {
            return ctx.reject(); // into_existing on enums: KF-C17-03
        }
        // one or two member instructions (or none); each is default or dedicated to T, and carries a name + expression,
        // only an expression, or only a name
        let k = ctx.choose(3);
        let mut ms: Vec<(&str, bool, usize)> = vec![]; // (name, dedicated to T, form)
        for _ in 0..k {
            let m = mnames[ctx.choose(mnames.len())];
            let ded = ctx.flag();
            let form = ctx.choose(3);
            ms.push((m, ded, form));
        }
        // two instructions must not compete for one (kind, fallibility, dedication) cell
        let cells = |m: &str| { let (d, f) = appl(m).unwrap(); d.into_iter().map(move |x| (x, f)).collect::<Vec<_>>() };
        if ms.len() == 2 && ms[0].1 == ms[1].1 && cells(ms[0].0).iter().any(|c| cells(ms[1].0).contains(c)) {
            return ctx.reject();
        }
        let cands: Vec<(usize, Vec<crate::model::Dir>, bool, Option<String>)> = ms.iter().enumerate().map(|(i, m)| { let (d, f) = appl(m.0).unwrap(); (i, d, f, if m.1 { Some("T".to_string()) } else { None }) }).collect();
        // the instruction in effect for a kind must name the counterpart field (for From kinds an expression will do)
        let uncovered: Vec<String> = tdirs
            .iter()
            .map(|d| Kind { dir: *d, fallible: tf })
            .filter(|k| match winner(&cands, *k, "T") {
                None => true,
                Some(i) => !(ms[i].2 != 1 || k.dir.is_from()),
            })
            .map(|k| k.basic_name().to_string())
            .collect();
        let attrs: String = ms
            .iter()
            .map(|(m, ded, form)| {
                let body = format!("{}{}", if *ded { "T| " } else { "" }, ["u, ~ + 1", "~ + 1", "u"][*form]);
                if crate::item::has_bare_form(m) { format!("#[{}({})] ", m, body) } else { format!("#[o2o({}({}))] ", m, body) }
            })
            .collect();
        let er = if tf { ", Er" } else { "" };
        // a further counterpart converted through a quick return: its body is replaced, so it asks nothing of the members (seed C08-07)
        let qr = ctx.flag();
        let input = if host == 0 {
            format!("#[{t}(T as {{}}{er})]\n{}struct S({attrs}i32);\n", if qr { "#[owned_into(W as {}| return todo!())]\n#[from_ref(W as {}| return todo!())]\n" } else { "" })
        } else {
            format!("#[{t}(T{er})]\n{}enum S {{ #[type_hint(as {{}})] A({attrs}i32), B }}\n", if qr { "#[owned_into(W| return todo!())]\n#[from_ref(W| return todo!())]\n" } else { "" })
        };
        let tags = vec![format!("host={}", ["tuple-struct", "tuple-variant"][host]), format!("trait={}", t), format!("members={}", ms.iter().map(|m| format!("{}{}/{}", m.0, if m.1 { "|T" } else { "" }, ["name+expr", "expr", "name"][m.2])).collect::<Vec<_>>().join("+")), format!("expect={}", if uncovered.is_empty() { "accept" } else { "reject" }), format!("quick-return-counterpart={}", qr)];
        Some(NCase { input, uncovered, tags })
    }
    fn check(&self, c: NCase, choices: &[u32], rep: &Report) {
        rep.eval(1);
        rep.states.add_of(&c.input);
        if !c.uncovered.is_empty() {
            rep.nontrivial.add_of(&c.input);
        }
        let x = expand(&c.input);
        rep.validate(1);
        rep.outputs.add_of(&(x.verdict(), c.uncovered.len()));
        match (&x, c.uncovered.is_empty()) {
            (Xp::Ok(_), true) => {}
            (Xp::Err(m), false) => {
                if !m.iter().any(|s| s.contains("field name")) {
                    let mut f = fail("name-rule", choices, &c.input, &c.tags, "missing-diagnostic", format!("no diagnostic names the missing field name (kinds without a name: {})", c.uncovered.join(", ")));
                    f.observed = format!("{:?}", m);
                    rep.fail(f);
                }
            }
            (Xp::Ok(_), false) => {
                let mut f = fail("name-rule", choices, &c.input, &c.tags, "accepted-misuse", format!("accepted although no member instruction names the counterpart field for: {}", c.uncovered.join(", ")));
                f.expected = "Err(diagnostics)".into();
                rep.fail(f);
            }
            (Xp::Err(m), true) => {
                let mut f = fail("name-rule", choices, &c.input, &c.tags, "rejected-valid-input", m.iter().skip(1).cloned().collect::<Vec<_>>().join(" | "));
                f.expected = "accepted: every requested kind is reached by a member instruction through the fallback chain".into();
                rep.fail(f);
            }
            (Xp::Panic { msg, loc }, _) => {
                rep.fail(fail("name-rule", choices, &c.input, &c.tags, "panic", format!("{} @ {}", msg, loc.split(':').next().unwrap_or(""))));
            }
            (Xp::NotAnItem(e), _) => {
                eprintln!("MACHINERY-ERROR: not an item: {} :: {}", e, c.input);
                std::process::exit(2);
            }
        }
    }
}

pub fn run(tier: &str) -> i32 {
    let rep = Report::new("C15", tier, "fault_enumeration");
    rep.set_rule("6 valid hosts (named struct x 2 counterparts, tuple struct with `as {}`, flattened struct, parent struct, enum with payloads, enum -> primitive) x the catalogue of ~60 concrete injections covering every misuse class of the statement (no trait instruction, duplicate instruction, missing/superfluous error type, 10 dedicated-to-unknown forms, duplicate default/dedicated for every instruction family, misplaced/misnamed names in bare and o2o(..) form, ghost without default, child without child_parents / missing path prefix, tuple/named mismatch, untyped nested parent, trait-level and member-level repeat conflicts, permeating repeat on a struct) x EVERY admissible position (type level: every index of the attribute list; member level: every member) and every PAIR of injections at every position x every surrounding valid instruction for a further counterpart (5 forms, first/last); thorough adds triples up to deviation bound 4. Oracle M_diag: verdict Err, and for every injected fault one diagnostic containing its salient key words; the fault-free hosts and every semantic struct case (valid by construction) must be accepted. states = distinct inputs; non-trivial = inputs with two simultaneous faults");
    rep.assume("a diagnostic `names the problem` when it contains the salient identifiers/key words of the class (OR of AND-sets), never full wording");
    let caps = Caps::from_env(if tier == "quick" { 120.0 } else { 1200.0 });
    run_space(&Inject { k: 0 }, None, &caps, &rep);
    run_space(&Inject { k: 1 }, None, &caps, &rep);
    run_space(&Inject { k: 2 }, None, &caps, &rep);
    if tier != "quick" {
        run_space(&Inject { k: 3 }, Some(6), &caps, &rep);
    }
    run_space(&NameRule, None, &caps, &rep);
    // "an input that breaks none is never rejected": the semantic spaces are valid by construction
    for sp in crate::corpus::spaces(tier).into_iter().filter(|s| matches!(s.name.as_str(), "sem-flat" | "sem-flat-pos" | "sem-parent" | "sem-enum")) {
        let name = format!("accept-only/{}", sp.name);
        let st = explore(
            |ctx| (sp.gen)(ctx),
            sp.bound,
            &caps,
            |choices, c| {
                let input = c.item.render();
                rep.eval(1);
                rep.states.add_of(&input);
                let x = expand(&input);
                rep.validate(1);
                if let Xp::Err(m) = &x {
                    let mut f = fail(&name, choices, &input, &c.tags, "rejected-valid-input", m.iter().skip(1).cloned().collect::<Vec<_>>().join(" | "));
                    f.expected = "accepted (the input breaks no documented rule)".into();
                    rep.fail(f);
                }
            },
        );
        rep.add_stats(&name, &sp.bound.map(|b| format!("dev({})", b)).unwrap_or("full".into()), &st);
    }
    // the semantic struct space, completely
    {
        let o = crate::sem_struct::Opts { max_n: if tier == "quick" { 2 } else { 3 }, menu: crate::sem_struct::MENU_FULL, max_ghosts: 1, allow_update: true, permute_idx: true };
        let st = explore(
            |ctx| crate::sem_struct::gen(ctx, &o),
            None,
            &caps,
            |choices, c| {
                let fl = if c.form == crate::sem_struct::CpForm::BareTuple { crate::sem_struct::Flavour::Infallible } else { crate::sem_struct::Flavour::Both };
                let input = c.item("S", fl).render();
                rep.eval(1);
                rep.states.add_of(&input);
                let x = expand(&input);
                rep.validate(1);
                if let Xp::Err(m) = &x {
                    let mut f = fail("accept-only/sem-struct", choices, &input, &c.tags, "rejected-valid-input", m.iter().skip(1).cloned().collect::<Vec<_>>().join(" | "));
                    f.expected = "accepted (the input breaks no documented rule)".into();
                    rep.fail(f);
                }
            },
        );
        rep.add_stats("accept-only/sem-struct", "full", &st);
    }
    rep.finish()
}

pub fn replay(f: &Failure) -> i32 {
    if f.space == "name-rule" {
        return replay_space(&NameRule, f, "C15");
    }
    if f.space.starts_with("inject(") {
        let k: usize = f.space.trim_start_matches("inject(").trim_end_matches(')').parse().unwrap_or(1);
        return replay_space(&Inject { k }, f, "C15");
    }
    let x = expand(&f.input);
    println!("input:\n{}\nobserved: {}", f.input, x.short());
    if matches!(x, Xp::Err(_)) { 1 } else { 0 }
}
