//! C19 - expansion is a deterministic function of the input.
//!
//! Deciding step: the hooks build (`--cfg o2o_verif`) replaces every HashMap/HashSet of o2o-impl by stand-ins whose
//! iteration order is chosen by the explorer; for every input EVERY iteration order of every container that is
//! iterated during the expansion is enumerated (the choice points are made while the real code runs) and the result
//! must be identical. Conformance of that abstraction: the guard-off build is run in K fresh processes (different
//! hash seeds; labelled sampling) and every output must be byte-equal to the explored one.

use crate::corpus;
use crate::explore::{explore, Caps};
use crate::report::{Failure, Report};
use crate::xp::{expand, Xp};
use serde_json::{json, Value};
use std::io::{BufRead, Write};
use std::sync::Mutex;

pub struct In {
    pub space: String,
    pub choices: Vec<u32>,
    pub tags: Vec<String>,
    pub src: String,
}

pub fn collect(tier: &str, caps: &Caps, rep: &Report) -> Vec<In> {
    let ins: Mutex<Vec<In>> = Mutex::new(vec![]);
    let push = |space: &str, ch: &[u32], tags: Vec<String>, src: String| ins.lock().unwrap().push(In { space: space.into(), choices: ch.to_vec(), tags, src });
    // inputs breaking several rules at once (>= 2 diagnostics)
    for k in [1usize, 2, 3] {
        let bound = match (tier, k) {
            (_, 1) => None,
            ("quick", 2) => Some(3),
            // (all pairs in full are 3.6 M inputs; with the rest of the thorough tier that was 57 GB of resident state)
            (_, 2) => Some(4),
            ("quick", _) => Some(3),
            // (triples dev(5) made 11 M inputs and 28 GB of resident state in the two processes)
            _ => Some(3),
        };
        let st = explore(|ctx| crate::faults::gen(ctx, k), bound, caps, |ch, c| push(&format!("faults({})", k), ch, c.tags.clone(), c.item.render()));
        rep.add_stats(&format!("faults({})", k), &bound.map(|b| format!("dev({})", b)).unwrap_or("full".into()), &st);
    }
    corpus::for_each(if tier == "quick" { "quick" } else { "mid" }, caps, rep, |space, ch, c| push(&format!("corpus/{}", space), ch, c.tags.clone(), c.item.render()));
    {
        use super::Space;
        let sp = super::c16::Combo { n: 2, curated: true };
        let b = if tier == "quick" { Some(3) } else { Some(4) };
        let st = explore(|ctx| sp.gen(ctx), b, caps, |ch, c| push("c16/combo", ch, c.tags.clone(), c.input.clone()));
        rep.add_stats("c16/combo(2,curated)", &format!("dev({})", b.unwrap()), &st);
    }
    {
        // flattening cases one deviation deeper than the shared corpus has them (two ghost-only nested structs need five
        // non-default choices - seed C19-02)
        let fo = crate::sem_flat::FlatOpts { max_members: 3, max_ghosts: 2, max_depth: 2, positional: false, ..crate::sem_flat::FlatOpts::DEF };
        let b = if tier == "quick" { Some(5) } else { Some(7) };
        let st = explore(|ctx| crate::sem_flat::gen_child(ctx, &fo), b, caps, |ch, c| push("sem-flat-deep", ch, c.tags.clone(), c.item("S", true).render()));
        rep.add_stats("sem-flat-deep", &format!("dev({})", b.unwrap()), &st);
    }
    {
        // chains of trait-level repeat() templates (several live templates, followers with and without parameters)
        use super::Space;
        for enum_host in [false, true] {
            let sp = super::c14::TraitRep { max_instr: 3, enum_host };
            let b = if tier == "quick" { Some(4) } else { Some(5) };
            let st = explore(|ctx| sp.gen(ctx), b, caps, |ch, c| push("c14/trait-repeat", ch, c.tags.clone(), c.with_repeat.render()));
            rep.add_stats(&format!("c14/trait-repeat({})", if enum_host { "enum" } else { "struct" }), &format!("dev({})", b.unwrap()), &st);
        }
    }
    {
        // two live repeat() templates of every pair of instruction names + a follower of every name, for each kind of
        // repeated parameter: which template (if any) reaches the follower must not depend on container order
        let names = ["from_owned", "owned_into", "map_owned", "from", "into", "map", "from_ref", "try_from_owned"];
        let mut n = 0u32;
        for t1 in names {
            for t2 in names {
                for fo in names {
                    for (pi, (p1, p2)) in [("vars(k: { 1 })", "vars(k: { 2 })"), ("return make(1)", "return make(2)"), ("..base1()", "..base2()")].iter().enumerate() {
                        let er = |n: &str| if n.starts_with("try_") { ", Er" } else { "" };
                        let src = format!("#[{t1}(A{}| repeat(), {p1})]\n#[{t2}(B{}| repeat(), {p2})]\n#[{fo}(C{})]\nstruct S {{ a: i32 }}\n", er(t1), er(t2), er(fo));
                        push("repeat-templates", &[n, pi as u32], vec![format!("t1={}", t1), format!("t2={}", t2), format!("follower={}", fo)], src);
                        n += 1;
                    }
                }
            }
        }
        rep.add_stats("repeat-templates", "full (8 x 8 x 8 names x 3 parameter kinds)", &crate::explore::ExploreStats { leaves: n as u64, transitions: n as u64, ..Default::default() });
    }
    let mut ins = ins.into_inner().unwrap();
    ins.sort_by(|a, b| (&a.space, &a.choices).cmp(&(&b.space, &b.choices)));
    let mut seen = std::collections::HashSet::new();
    ins.retain(|i| seen.insert(crate::report::h64(&i.src)));
    ins
}

fn render(x: &Xp) -> String {
    match x {
        Xp::Ok(t) => format!("OK {}", t),
        Xp::Err(m) => format!("ERR {}", m.join(" || ")), // ORDERED list
        Xp::Panic { msg, loc } => format!("PANIC {} @ {}", msg, loc.split(':').next().unwrap_or("")),
        Xp::NotAnItem(e) => format!("NOTITEM {}", e),
    }
}

pub fn run(tier: &str) -> i32 {
    let rep = Report::new("C19", tier, "model_checking");
    rep.set_rule("inputs: every single / pair / (bounded) triple of the C15 misuse injections at every position (inputs breaking several rules at once), the host corpus, C16's instruction pairs. For every input the hooks build enumerates EVERY iteration order of every HashMap/HashSet that is iterated during the expansion (choice points made by the explorer while the real derive runs; n! orders per container for n <= 6, deviation-bounded above), twice per process at different history positions; the rendered result (token text, or the ORDERED diagnostic list) must be identical for all schedules. states = distinct inputs; transitions = order choice edges + generator choice edges; non-trivial = inputs with >= 2 diagnostics. Conformance (labelled sampling over hash seeds): the guard-off build expands the same inputs in K fresh processes (quick 6, thorough 9) and every output must be byte-equal to the explored singleton");
    rep.assume("the only environment-dependent choice in o2o-impl is hash-container iteration order (no statics, env, time or I/O: checked by reading); a std::collections import that bypasses the cfg-switched `use` lines is invisible to the order exploration and is covered only by the fresh-process runs");
    let hooks = match std::env::var("O2OV_HOOKS") {
        Ok(p) => p,
        Err(_) => {
            eprintln!("MACHINERY-ERROR: O2OV_HOOKS (engine built with --cfg o2o_verif) not set; run through ./check");
            return 2;
        }
    };
    let caps = Caps::from_env(if tier == "quick" { 150.0 } else { 1500.0 });
    let ins = collect(tier, &caps, &rep);
    eprintln!("  {} distinct inputs", ins.len());
    {
        let mut per: std::collections::BTreeMap<String, usize> = Default::default();
        for i in &ins {
            *per.entry(i.space.split('/').next().unwrap_or("").to_string()).or_default() += 1;
        }
        eprintln!("  per space family: {:?}", per);
        if std::env::var("VERIF_COUNT_ONLY").is_ok() {
            return 0;
        }
    }
    // work directories of killed earlier runs (gigabytes) are removed first
    if let Ok(rd) = std::fs::read_dir(format!("{}/work", crate::report::verif_dir())) {
        for e in rd.flatten() {
            if e.file_name().to_string_lossy().starts_with("c19-") {
                let _ = std::fs::remove_dir_all(e.path());
            }
        }
    }
    let dir = format!("{}/work/c19-{}", crate::report::verif_dir(), std::process::id());
    let _ = std::fs::create_dir_all(&dir);
    let inp = format!("{}/in.jsonl", dir);
    {
        let mut w = std::io::BufWriter::new(std::fs::File::create(&inp).unwrap());
        for (k, i) in ins.iter().enumerate() {
            writeln!(w, "{}", json!({"k": k.to_string(), "s": i.src})).unwrap();
        }
    }
    // 1. order exploration in the hooks build
    let outp = format!("{}/orders.json", dir);
    let st = std::process::Command::new(&hooks).args(["c19-orders", &inp, &outp]).status();
    if !matches!(st, Ok(s) if s.success()) {
        eprintln!("MACHINERY-ERROR: hooks build failed to run: {:?}", st);
        return 2;
    }
    let ord: Value = serde_json::from_str(&std::fs::read_to_string(&outp).unwrap()).unwrap();
    if ord["shim_selftest"] != "ok" {
        eprintln!("MACHINERY-ERROR: the order shim is not live in the hooks build (self-test: {})", ord["shim_selftest"]);
        return 2;
    }
    rep.put("schedules_explored", ord["schedules"].clone());
    rep.put("iteration_events_seen", ord["events"].clone());
    rep.put("containers_iterated_histogram", ord["event_sizes"].clone());
    rep.put("shim_selftest", ord["shim_selftest"].clone());
    let sched = ord["schedules"].as_u64().unwrap_or(0);
    rep.eval(sched);
    rep.stats.lock().unwrap().transitions += ord["order_edges"].as_u64().unwrap_or(0);
    let base: Vec<String> = ord["baseline"].as_array().unwrap().iter().map(|x| x.as_str().unwrap().to_string()).collect();
    for f in ord["failures"].as_array().unwrap() {
        let k = f["k"].as_u64().unwrap() as usize;
        let i = &ins[k];
        let mut fl = super::fail(&i.space, &i.choices, &i.src, &i.tags, "order-dependent-output", f["detail"].as_str().unwrap_or("").to_string());
        fl.expected = f["expected"].as_str().unwrap_or("").to_string();
        fl.observed = f["observed"].as_str().unwrap_or("").to_string();
        rep.fail(fl);
    }
    // 2. guard-off: in-process twice + K fresh processes
    // (24 fresh processes over the thorough tier's 2.4 M inputs took an hour and 3 GB of output each)
    let k_proc = if tier == "quick" { 6 } else { 9 };
    let mine: Vec<String> = { use rayon::prelude::*; ins.par_iter().map(|i| render(&expand(&i.src))).collect() };
    // (only verdicts are kept of the second in-process pass and of the fresh processes: K x N output strings were 30 GB
    //  in the thorough tier)
    let same2: Vec<bool> = {
        use rayon::prelude::*;
        let mut v: Vec<(usize, bool)> = ins.par_iter().enumerate().rev().map(|(k, i)| (k, render(&expand(&i.src)) == mine[k])).collect();
        v.sort();
        v.into_iter().map(|x| x.1).collect()
    };
    drop(ord);
    let me = std::env::current_exe().unwrap();
    // 3. which environment variables does an expansion READ?  libc's getenv is interposed (LD_PRELOAD) in one run over all
    //    inputs and in one run over no input; a name read only in the former is read by the expansion itself.
    match trace_getenv(&me, &dir, &inp) {
        Ok(names) => {
            rep.put("getenv_traced", json!(true));
            // reading a variable is not yet depending on it: the inputs are expanded again with the variable unset and set to
            // a few values; only a difference in the output is a violation
            let mut harmless = vec![];
            for n in names {
                let mut outs: Vec<(String, Vec<u8>)> = vec![];
                for (label, val) in [("unset", None), ("empty", Some("")), ("1", Some("1")), ("o2o", Some("o2o")), ("true", Some("true")), ("/tmp", Some("/tmp"))] {
                    let o = format!("{}/env-{}.jsonl", dir, label.replace('/', "_"));
                    let mut cmd = std::process::Command::new(&me);
                    cmd.args(["expand-file", &inp, &o]).env_remove(&n);
                    if let Some(v) = val {
                        cmd.env(&n, v);
                    }
                    if !matches!(cmd.status(), Ok(s) if s.success()) {
                        eprintln!("MACHINERY-ERROR: environment re-run failed");
                        return 2;
                    }
                    // (only a digest of each run is kept: the files are gigabytes in the thorough tier)
                    let bytes = std::fs::read(&o).unwrap_or_default();
                    let _ = std::fs::remove_file(&o);
                    outs.push((label.to_string(), crate::report::h64(&String::from_utf8_lossy(&bytes)).to_le_bytes().to_vec()));
                }
                let differing: Vec<&str> = outs.iter().filter(|(_, b)| *b != outs[0].1).map(|(l, _)| l.as_str()).collect();
                if differing.is_empty() {
                    harmless.push(n);
                } else {
                    let mut fl = super::fail("environment", &[], &ins[0].src, &[], "reads-environment", format!("the expansions depend on the environment variable `{}` (output with it unset differs from output with it set to: {})", n, differing.join(", ")));
                    fl.expected = "nothing in the output depends on the environment".into();
                    rep.fail(fl);
                }
            }
            rep.put("env_vars_read_without_effect", json!(harmless));
        }
        Err(e) => {
            rep.put("getenv_traced", json!(false));
            rep.assume(&format!("environment reads could not be traced ({}); environment independence rests on the three environment profiles of the fresh-process runs only", e));
        }
    }
    // first fresh process (and its output) that disagrees with `mine`, per input
    let mut pdiff: Vec<Option<(usize, String)>> = (0..ins.len()).map(|_| None).collect();
    let mut pseen: Vec<u32> = vec![0; ins.len()];
    for p in 0..k_proc {
        let o = format!("{}/p{}.jsonl", dir, p);
        // the fresh processes also differ in their ENVIRONMENT: inherited | empty | a cargo-like one with odd values
        let mut cmd = std::process::Command::new(&me);
        cmd.args(["expand-file", &inp, &o]);
        match p % 3 {
            1 => {
                cmd.env_clear();
            }
            2 => {
                for (k, v) in HOSTILE_ENV {
                    cmd.env(k, v);
                }
            }
            _ => {}
        }
        let st = cmd.status();
        if !matches!(st, Ok(s) if s.success()) {
            eprintln!("MACHINERY-ERROR: fresh-process run failed");
            return 2;
        }
        for line in std::io::BufReader::new(std::fs::File::open(&o).unwrap()).lines() {
            let j: Value = serde_json::from_str(&line.unwrap()).unwrap();
            let k: usize = j["k"].as_str().unwrap().parse().unwrap();
            let msgs = || j["m"].as_array().map(|a| a.iter().map(|x| x.as_str().unwrap_or("").to_string()).collect::<Vec<_>>()).unwrap_or_default();
            let got = match j["v"].as_str().unwrap() {
                "ok" => format!("OK {}", j["t"].as_str().unwrap()),
                "err" => format!("ERR {}", msgs().join(" || ")),
                "panic" => format!("PANIC {}", msgs().join(" ").rsplit_once(':').map(|x| x.0.to_string()).unwrap_or_default()),
                _ => format!("NOTITEM {}", msgs().join(" ")),
            };
            pseen[k] += 1;
            if got != mine[k] && pdiff[k].is_none() {
                pdiff[k] = Some((p, got));
            }
        }
        let _ = std::fs::remove_file(&o);
    }
    if pseen.iter().any(|c| *c != k_proc as u32) {
        eprintln!("MACHINERY-ERROR: a fresh process did not report every input");
        return 2;
    }
    let _ = std::fs::remove_dir_all(&dir);
    for (k, i) in ins.iter().enumerate() {
        rep.states.add_of(&i.src);
        rep.validate(1);
        rep.outputs.add_of(&mine[k]);
        if mine[k].starts_with("ERR") && mine[k].matches(" || ").count() >= 2 {
            rep.nontrivial.add_of(&i.src);
        }
        let mut diffs: Vec<String> = vec![];
        if !same2[k] {
            diffs.push("two expansions in one process differ".into());
        }
        // panics render differently across the two encodings; compare only non-panic outputs byte-wise
        if !mine[k].starts_with("PANIC") {
            if base[k] != mine[k] {
                diffs.push("guard-off output differs from the output explored in the hooks build".into());
            }
            if let Some((p, _)) = &pdiff[k] {
                diffs.push(format!("fresh process #{} differs", p));
            }
        }
        if !diffs.is_empty() {
            let mut fl = super::fail(&i.space, &i.choices, &i.src, &i.tags, "order-dependent-output", diffs.join("; "));
            fl.expected = crate::xp::trunc(&mine[k], 600);
            fl.observed = crate::xp::trunc(pdiff[k].as_ref().map(|x| &x.1).unwrap_or(&base[k]), 600);
            rep.fail(fl);
        }
        if rep.want_sample() && mine[k].matches(" || ").count() >= 3 {
            rep.sample(json!({"space": i.space, "choices": i.choices, "input": i.src, "ordered_diagnostics": mine[k]}));
        }
    }
    rep.put("fresh_processes", json!(k_proc));
    rep.finish()
}

const HOSTILE_ENV: &[(&str, &str)] = &[
    ("CARGO_PKG_NAME", "o2o"), ("CARGO_CRATE_NAME", "o2o"), ("CARGO_PKG_VERSION", "9.9.9"), ("CARGO_MANIFEST_DIR", "/nonexistent/o2o"), ("CARGO_PRIMARY_PACKAGE", "1"),
    ("CARGO", "/nonexistent/cargo"), ("CARGO_CFG_TARGET_OS", "none"), ("CARGO_FEATURE_SYN2", "1"), ("OUT_DIR", "/nonexistent/out"), ("PROFILE", "release"), ("DEBUG", "false"),
    ("OPT_LEVEL", "3"), ("TARGET", "x"), ("HOST", "y"), ("RUSTC", "/nonexistent/rustc"), ("RUSTFLAGS", "--cfg o2o_whatever"), ("RUST_LOG", "trace"), ("O2O_DEBUG", "1"), ("O2O", "1"),
    ("HOME", "/nonexistent"), ("USER", "nobody"), ("LANG", "tr_TR.UTF-8"), ("LC_ALL", "tr_TR.UTF-8"), ("TZ", "Pacific/Kiritimati"), ("SOURCE_DATE_EPOCH", "0"), ("TERM", "dumb"),
    ("NO_COLOR", "1"), ("DOCS_RS", "1"), ("CI", "true"), ("PWD", "/nonexistent"),
];

const GETENV_SHIM: &str = r#"
#define _GNU_SOURCE
#include <dlfcn.h>
#include <string.h>
#include <unistd.h>
#include <fcntl.h>
static char *(*real_getenv)(const char *) = 0;
char *getenv(const char *name) {
    if (!real_getenv) real_getenv = dlsym(RTLD_NEXT, "getenv");
    const char *log = real_getenv("O2OV_GETENV_LOG");
    if (log && name) {
        int fd = open(log, O_WRONLY | O_APPEND | O_CREAT, 0644);
        if (fd >= 0) { write(fd, name, strlen(name)); write(fd, "\n", 1); close(fd); }
    }
    return real_getenv(name);
}
"#;

/// names of environment variables read while expanding the inputs (and not by the bare process)
fn trace_getenv(me: &std::path::Path, dir: &str, inp: &str) -> Result<Vec<String>, String> {
    let c = format!("{}/getenv_shim.c", dir);
    let so = format!("{}/getenv_shim.so", dir);
    std::fs::write(&c, GETENV_SHIM).map_err(|e| e.to_string())?;
    let cc = std::process::Command::new("cc").args(["-shared", "-fPIC", "-o", &so, &c, "-ldl"]).output().map_err(|e| format!("cc: {}", e))?;
    if !cc.status.success() {
        return Err("cc could not build the getenv shim".into());
    }
    let empty = format!("{}/empty.jsonl", dir);
    std::fs::write(&empty, "").map_err(|e| e.to_string())?;
    let mut sets: Vec<std::collections::BTreeSet<String>> = vec![];
    for (i, input) in [empty.as_str(), inp].iter().enumerate() {
        let log = format!("{}/getenv{}.log", dir, i);
        let out = format!("{}/getenv{}.out", dir, i);
        let st = std::process::Command::new(me).args(["expand-file", input, &out]).env("LD_PRELOAD", &so).env("O2OV_GETENV_LOG", &log).status().map_err(|e| e.to_string())?;
        if !st.success() {
            return Err("traced run failed".into());
        }
        sets.push(std::fs::read_to_string(&log).unwrap_or_default().lines().map(|l| l.to_string()).collect());
        let _ = std::fs::remove_file(&out);
    }
    // self-test: the shim must have seen the runtime's own reads in the bare run, else it is not live
    if sets[0].is_empty() {
        return Err("the shim saw no getenv call at all (not live)".into());
    }
    // a panicking expansion consults the backtrace switches through the panic machinery, not through o2o
    let allow = ["RUST_BACKTRACE", "RUST_LIB_BACKTRACE"];
    Ok(sets[1].difference(&sets[0]).filter(|n| !allow.contains(&n.as_str())).cloned().collect())
}

pub fn replay(f: &Failure) -> i32 {
    let a = render(&expand(&f.input));
    let b = render(&expand(&f.input));
    println!("input:\n{}\nrun 1: {}\nrun 2: {}", f.input, crate::xp::trunc(&a, 800), crate::xp::trunc(&b, 800));
    if let Ok(hooks) = std::env::var("O2OV_HOOKS") {
        let dir = format!("{}/work/c19r-{}", crate::report::verif_dir(), std::process::id());
        let _ = std::fs::create_dir_all(&dir);
        let inp = format!("{}/in.jsonl", dir);
        let outp = format!("{}/orders.json", dir);
        std::fs::write(&inp, format!("{}\n", json!({"k": "0", "s": f.input}))).unwrap();
        let _ = std::process::Command::new(&hooks).args(["c19-orders", &inp, &outp]).status();
        let o = std::fs::read_to_string(&outp).unwrap_or_default();
        let _ = std::fs::remove_dir_all(&dir);
        let v: Value = serde_json::from_str(&o).unwrap_or(Value::Null);
        println!("order exploration: schedules={} failures={}", v["schedules"], v["failures"]);
        if v["failures"].as_array().map_or(false, |a| !a.is_empty()) {
            println!("REPLAYED property=C19 kind=order-dependent-output");
            return 1;
        }
    }
    if a != b {
        println!("REPLAYED property=C19 kind=order-dependent-output");
        return 1;
    }
    println!("replay: no order dependence found on this tree (fresh-process differences need several processes: re-run the check)");
    0
}
