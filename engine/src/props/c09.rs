//! C09 - literal/pattern instructions map enum variants to primitive values both ways (engine B).

use super::bcommon::{run_items, BItem};
use crate::explore::{explore, replay_one, Caps};
use crate::report::{Failure, Report};
use crate::rt::BOpts;
use crate::sem_prim::gen;
use std::sync::Mutex;

fn bounds(tier: &str) -> (usize, Option<usize>) {
    if tier == "quick" { (3, Some(4)) } else { (4, Some(5)) }
}

pub fn run(tier: &str) -> i32 {
    let rep = Report::new("C09", tier, "model_checking");
    rep.set_rule("every enum of 1-3 variants (quick 2) whose arms are drawn from {literal(k), pattern(a..=b)+into, pattern(a|b)+into, guarded binding pattern(n if n % 2 == 0)+into, pattern(_)+into, the README catch-all `#[pattern(_)] #[into({f0})] Other(#[from(@)] prim)`, ghost variant} with k, a, b over the boundary points {0,1,2,127,128,254,255} (u8) / {-128,-1,0,1,127} (i8) / a closed string set, distinct AND overlapping assignments, every variant order, counterparts u8, i8 and a &'static str alias, kinds {map_owned, map (owned + by-ref), from_owned only}, infallible (default case -> marker variant) and fallible (default case -> Err): compiled through the real derive and executed over the WHOLE primitive domain (all 256 values) - From must equal the first-match-in-declaration-order model, Into must yield the literal / into value, and variant -> primitive -> variant is the identity where the model says so. states = distinct test modules");
    rep.assume("overlapping arms produce rustc `unreachable pattern` warnings only; string counterpart uses the documented StaticStr alias");
    let caps = Caps::from_env(if tier == "quick" { 200.0 } else { 1500.0 });
    let (mv, b) = bounds(tier);
    let items: Mutex<Vec<BItem>> = Mutex::new(vec![]);
    let st = explore(|ctx| gen(ctx, mv), b, &caps, |ch, c| {
        items.lock().unwrap().push(BItem { space: "prim".into(), choices: ch.to_vec(), tags: c.tags.clone(), inputs: vec![c.item_text(false), c.item_text(true)], module: c.render_module(), nontrivial: c.nontrivial() });
    });
    rep.add_stats("prim", &b.map(|b| format!("dev({})", b)).unwrap_or("full".into()), &st);
    eprintln!("  space prim: {} choice vectors, {} pruned", st.leaves, st.pruned);
    if let Err(e) = run_items("C09", items.into_inner().unwrap(), &rep, BOpts { no_std: false, features: "", name: "c09".into(), keep: std::env::var("VERIF_KEEP").is_ok() }) {
        eprintln!("MACHINERY-ERROR: {}", e);
        return 2;
    }
    rep.finish()
}

pub fn replay(f: &Failure) -> i32 {
    let mut obs = vec![];
    for round in 0..2 {
        let mut item = None;
        for t in ["quick", "thorough"] {
            let (mv, _) = bounds(t);
            if let (Some(c), full) = replay_one(|ctx| gen(ctx, mv), &f.choices) {
                let inputs = vec![c.item_text(false), c.item_text(true)];
                if full == f.choices && inputs.join("\n") == f.input {
                    item = Some(BItem { space: "prim".into(), choices: full, tags: c.tags.clone(), inputs, module: c.render_module(), nontrivial: true });
                    break;
                }
            }
        }
        let item = match item {
            Some(i) => i,
            None => {
                eprintln!("MACHINERY-ERROR: cannot re-render {:?}", f.choices);
                return 2;
            }
        };
        let rep = Report::new("C09", "quick", "model_checking");
        if let Err(e) = run_items("C09", vec![item], &rep, BOpts { no_std: false, features: "", name: format!("c09-replay{}", round), keep: false }) {
            eprintln!("MACHINERY-ERROR: {}", e);
            return 2;
        }
        obs.push(rep.failures.lock().unwrap().iter().map(|x| (x.kind.clone(), x.detail.clone())).collect::<Vec<_>>());
    }
    if obs[0] != obs[1] {
        eprintln!("MACHINERY-ERROR: non-deterministic replay");
        return 2;
    }
    if obs[0].is_empty() {
        println!("replay: no failure on this tree");
        return 0;
    }
    for (k, d) in &obs[0] {
        println!("REPLAYED property=C09 kind={} detail={}", k, d);
    }
    println!("input:\n{}", f.input);
    1
}
