//! "Every instruction name at every level" hosts for the corpus: the feature-interaction generators use the everyday
//! names; these spaces put each of the 24 trait / 21 member mapping names (and ghost names) at type, field, variant,
//! variant-field and nested-parent level, in default and dedicated form, alone and in pairs.

use crate::explore::Ctx;
use crate::feat::FCase;
use crate::item::{Field, Instr, Item, Shape, Variant};
use crate::model::{all_trait_names, appl, member_map_names, INFALLIBLE_NAMES};

fn trait_set(it: &mut Item, existing: bool) {
    for cp in ["T", "U"] {
        it.attrs.push(Instr::new("map", None, cp));
        it.attrs.push(Instr::new("try_map", None, &format!("{}, Er", cp)));
        if existing {
            it.attrs.push(Instr::new("into_existing", None, cp));
            it.attrs.push(Instr::new("try_into_existing", None, &format!("{}, Er", cp)));
        }
    }
}

/// field level: sequences of <= k member instructions (as in C05)
pub fn gen_member(ctx: &mut Ctx, k: usize) -> Option<FCase> {
    use crate::props::Space;
    let sp = crate::props::c05::Prec { max_instr: k, host: 0 };
    let c = sp.gen(ctx)?;
    Some(FCase { item: crate::props::c05::to_item(&c.instrs), tags: c.tags })
}

/// variant level + variant-field level
pub fn gen_variant(ctx: &mut Ctx, k: usize) -> Option<FCase> {
    let names: Vec<&str> = member_map_names().into_iter().filter(|n| !n.contains("existing")).collect();
    let gnames = ["ghost", "ghost_owned", "ghost_ref"];
    let named = ctx.flag();
    let n = 1 + ctx.choose(k);
    let mut vattrs = vec![];
    let mut tags = vec!["host=enum".to_string(), "names=variant".to_string()];
    let mut used: Vec<(String, Option<&str>)> = vec![];
    for i in 0..n {
        let x = ctx.choose(names.len() + gnames.len());
        let ded = [None, Some("T"), Some("U")][ctx.choose(3)];
        let name = if x < names.len() { names[x] } else { gnames[x - names.len()] };
        if used.contains(&(name.to_string(), ded)) {
            return ctx.reject();
        }
        used.push((name.to_string(), ded));
        if x < names.len() {
            vattrs.push(Instr::new(name, ded, &format!("X{}", i)));
        } else {
            vattrs.push(Instr::new(name, ded, &format!("{{ T::Z{} }}", i)));
        }
        tags.push(format!("instr={}{}", name, ded.map(|d| format!("|{}", d)).unwrap_or_default()));
    }
    // one instruction on the payload field
    let mut f = if named { Field::named("x", "i32") } else { Field::pos("i32") };
    let fx = ctx.choose(names.len() + 1);
    if fx > 0 {
        let ded = [None, Some("T"), Some("U")][ctx.choose(3)];
        f.attrs.push(Instr::new(names[fx - 1], ded, &if named { "y, ~ + 7".to_string() } else { "~ + 7".to_string() }));
        tags.push(format!("finstr={}", names[fx - 1]));
    }
    let vs = vec![Variant { attrs: vattrs, name: "A".into(), shape: if named { Shape::Named } else { Shape::Tuple }, fields: vec![f] }, Variant { attrs: vec![], name: "B".into(), shape: Shape::Unit, fields: vec![] }];
    let mut it = Item::new_enum("S", vs);
    for cp in ["T", "U"] {
        it.attrs.push(Instr::new("map", None, &format!("{}| _ => panic!()", cp)));
        it.attrs.push(Instr::new("try_map", None, &format!("{}, Er| _ => panic!()", cp)));
    }
    Some(FCase { item: it, tags })
}

/// type level: <= k of the 24 trait-instruction names over two counterparts, on hosts whose members carry
/// kind-specific instructions
pub fn gen_type(ctx: &mut Ctx, k: usize) -> Option<FCase> {
    let names = all_trait_names();
    let is_enum = ctx.flag();
    let n = 1 + ctx.choose(k);
    let mut attrs = vec![];
    let mut used = vec![];
    let mut tags = vec![format!("host={}", if is_enum { "enum" } else { "struct" }), "names=type".to_string()];
    for i in 0..n {
        let name = names[ctx.choose(names.len())];
        let cp = if i == 0 { "T" } else { ["T", "U"][ctx.choose(2)] };
        let (dirs, fallible) = appl(name).unwrap();
        for d in &dirs {
            if used.contains(&(cp, *d, fallible)) {
                return ctx.reject();
            }
            used.push((cp, *d, fallible));
        }
        if is_enum && dirs.iter().any(|d| d.is_existing()) {
            return ctx.reject();
        }
        attrs.push(Instr::new(name, None, &format!("{}{}", cp, if fallible { ", Er" } else { "" })));
        tags.push(format!("instr={}", name));
    }
    let mut it = if is_enum {
        Item::new_enum(
            "S",
            vec![
                Variant { attrs: vec![Instr::new("from", None, "X0"), Instr::new("try_into", Some("T"), "X1")], name: "A".into(), shape: Shape::Tuple, fields: vec![Field::pos("i32").with(Instr::new("ref_into", None, "*~ + 1"))] },
                Variant { attrs: vec![], name: "B".into(), shape: Shape::Unit, fields: vec![] },
            ],
        )
    } else {
        Item::new_struct(
            "S",
            Shape::Named,
            vec![
                Field::named("a", "i32").with(Instr::new("from_owned", None, "x, ~ + 1")).with(Instr::new("try_into", Some("T"), "y, ~ + 2")).with(Instr::new("ref_into_existing", None, "z")),
                Field::named("b", "i32").with(Instr::new("ghost_ref", Some("U"), "{ 3 }")),
                Field::named("c", "i32"),
            ],
        )
    };
    it.attrs = attrs;
    Some(FCase { item: it, tags })
}

/// nested level: `[name(..)]` instructions inside a parameterised #[parent(..)]
pub fn gen_parent(ctx: &mut Ctx, k: usize) -> Option<FCase> {
    let names: Vec<&str> = INFALLIBLE_NAMES.iter().map(|x| x.0).collect();
    let n = 1 + ctx.choose(k);
    let mut nested = String::new();
    let mut tags = vec!["host=struct".to_string(), "names=parent".to_string()];
    let mut used = vec![];
    for i in 0..n {
        let name = names[ctx.choose(names.len())];
        if used.contains(&name) {
            return ctx.reject();
        }
        used.push(name);
        let body = match ctx.choose(3) {
            0 => format!("px{}", i),
            1 => format!("px{}, ~ + {}", i, i + 1),
            _ => format!("~ + {}", i + 1),
        };
        nested.push_str(&format!("[{}({})] ", name, body));
        tags.push(format!("nested={}", name));
    }
    let deeper = ctx.flag();
    let body = if deeper { format!("{}pa, [parent({}pq)] pp: PP, pb", nested, nested) } else { format!("{}pa, pb", nested) };
    let mut it = Item::new_struct("S", Shape::Named, vec![Field { attrs: vec![Instr::new("parent", None, &body)], name: Some("p".into()), ty: "P".into() }, Field::named("c", "i32")]);
    trait_set(&mut it, true);
    Some(FCase { item: it, tags })
}

/// `#[o2o(allow_unknown)]` hosts: a bare attribute whose name collides with an o2o instruction of the other level is
/// silenced by allow_unknown wherever the valid instructions sit and however they are spelled (C13)
pub fn gen_allow_unknown(ctx: &mut Ctx) -> Option<FCase> {
    let is_enum = ctx.flag();
    let type_collide = ["parent(X)", "child(x)", "ghost(x: {1})", "literal(1)", "type_hint(as ())", "as_type(i64)", "repeat()", "serde(rename = \"x\")"];
    let member_collide = ["where_clause(A: B)", "children()", "child_parents(p: P)", "serde(skip)"];
    let mut tags = vec![format!("host={}", if is_enum { "enum" } else { "struct" }), "names=allow-unknown".to_string()];
    let mut attrs = vec![Instr::new("map", None, "T")];
    if ctx.flag() {
        attrs.push(Instr::new(if is_enum { "from" } else { "into_existing" }, None, "U"));
    }
    if ctx.flag() {
        attrs.push(Instr::new("where_clause", None, "T: Clone"));
    }
    // the o2o instructions of the type as bare attributes, or each in a `#[o2o(..)]` list of its own (what one list
    // says about unknown attributes must hold across the lists of the type - seed C18-08)
    if ctx.flag() {
        for a in attrs.iter_mut() {
            a.form = crate::item::Form::O2o;
        }
        tags.push("type-instructions=o2o-lists".into());
    }
    // colliding bare attribute at type level
    let tc = ctx.choose(type_collide.len() + 1);
    if tc > 0 {
        let txt = type_collide[tc - 1];
        let (n, b) = txt.split_once('(').unwrap();
        let mut i = Instr::new(n, None, b.strip_suffix(')').unwrap());
        i.form = crate::item::Form::Bare;
        i.fixed = true;
        let pos = ctx.choose(attrs.len() + 1);
        attrs.insert(pos, i);
        tags.push(format!("type-collision={}", n));
    }
    // allow_unknown: absent | at any position
    let au = ctx.choose(attrs.len() + 2);
    if au > 0 {
        let mut i = Instr::word("allow_unknown");
        i.form = crate::item::Form::O2o;
        attrs.insert(au - 1, i);
        tags.push(format!("allow_unknown@{}", au - 1));
    }
    let mc = ctx.choose(member_collide.len() + 1);
    let mut mattrs = vec![Instr::new("map", None, if is_enum { "X" } else { "x" })];
    if mc > 0 {
        let txt = member_collide[mc - 1];
        let (n, b) = txt.split_once('(').unwrap();
        let mut i = Instr::new(n, None, b.strip_suffix(')').unwrap());
        i.form = crate::item::Form::Bare;
        i.fixed = true;
        if ctx.flag() {
            mattrs.insert(0, i);
        } else {
            mattrs.push(i);
        }
        tags.push(format!("member-collision={}", n));
    }
    let mut it = if is_enum {
        Item::new_enum("S", vec![Variant { attrs: mattrs, name: "A".into(), shape: Shape::Unit, fields: vec![] }, Variant { attrs: vec![], name: "B".into(), shape: Shape::Unit, fields: vec![] }])
    } else {
        Item::new_struct("S", Shape::Named, vec![Field { attrs: mattrs, name: Some("a".into()), ty: "i32".into() }, Field::named("b", "i32")])
    };
    it.attrs = attrs;
    Some(FCase { item: it, tags })
}

/// the C15 misuse injections (one fault) as corpus inputs: invalid inputs must respell / expand consistently too
pub fn gen_faulty(ctx: &mut Ctx) -> Option<FCase> {
    let c = crate::faults::gen(ctx, 1)?;
    Some(FCase { item: c.item, tags: c.tags })
}

/// C06: every instruction family in every dedication pattern - default, dedicated to T, dedicated to U, in any
/// combination on the same member / type (two counterparts, all kinds)
pub fn gen_dedication(ctx: &mut Ctx) -> Option<FCase> {
    let host = ctx.choose(3);
    let is_enum = host == 1;
    let mut tags = vec![format!("host={}", ["struct", "enum", "unit-struct"][host]), "two-counterparts".to_string(), "names=dedication".to_string()];
    let slots: [Option<&str>; 3] = [None, Some("T"), Some("U")];
    if host == 2 {
        // unit struct: what the counterpart looks like depends on the hint and on the #[ghosts] that apply to it
        // (seed C06-02: ghosts dedicated to T changed the body generated for U)
        let mut it = Item::new_struct("S", Shape::Unit, vec![]);
        for cp in ["T", "U"] {
            let hint = ["", " as {}", " as ()"][ctx.choose(3)];
            tags.push(format!("hint:{}={}", cp, hint.trim()));
            it.attrs.push(Instr::new("map", None, &format!("{}{}", cp, hint)));
            it.attrs.push(Instr::new("into_existing", None, &format!("{}{}", cp, hint)));
        }
        let forms = ["ghosts(g{d}: { {n} })", "ghosts(0: { {n} })", "ghosts_owned(g{d}: { {n} })", "ghosts_ref(0: { {n} })"];
        let mut n = 0;
        for (si, ded) in slots.iter().enumerate() {
            let c = ctx.choose(forms.len() + 1);
            if c == 0 {
                continue;
            }
            n += 1;
            let txt = forms[c - 1].replace("{d}", &si.to_string()).replace("{n}", &(si + 1).to_string());
            let i = txt.find('(').unwrap();
            it.attrs.push(Instr::new(&txt[..i], *ded, &txt[i + 1..txt.len() - 1]));
            tags.push(format!("ghosts:{}={}", ded.unwrap_or("default"), c));
        }
        if n == 0 {
            return ctx.reject();
        }
        return Some(FCase { item: it, tags });
    }
    let mut type_attrs: Vec<Instr> = vec![];
    let mut m_attrs: Vec<Instr> = vec![];
    let mut m_ty = "i32";
    let mut uses_child = false;
    if !is_enum {
        // families: (tag, forms) ; form text uses {d} for a per-slot discriminator
        let fams: [(&str, &[&str]); 8] = [
            ("map", &["map(x{d})", "map(x{d}, ~ + {n})", "from(y{d})", "into_existing(z{d})"]),
            ("ghost", &["ghost({ {n} })", "ghost_owned({ {n} })", "ghost_ref({ {n} })"]),
            ("child", &["child(p)", "child(p.q)"]),
            ("parent", &["parent", "parent(pa{d}, pb{d})", "parent(pa{d}, [parent(pc{d})] pn{d})", "parent(pa{d}, [parent(pc{d})] pn{d}: Pn)"]),
            ("as_type", &["as_type(i64)", "as_type(w{d}, i64)"]),
            ("where_clause", &["where_clause(P{d}: Clone)"]),
            ("ghosts", &["ghosts(g{d}: { {n} })", "ghosts_owned(g{d}: { {n} })", "ghosts(p@h{d}: { {n} })"]),
            ("child_parents", &["child_parents(p: P{d}, p.q: Q{d})"]),
        ];
        let mut n = 0;
        for (fi, (fam, forms)) in fams.iter().enumerate() {
            for (si, ded) in slots.iter().enumerate() {
                let c = ctx.choose(forms.len() + 1);
                if c == 0 {
                    continue;
                }
                n += 1;
                let txt = forms[c - 1].replace("{d}", &si.to_string()).replace("{n}", &(10 * fi + si + 1).to_string());
                let (name, body, parens) = match txt.find('(') {
                    Some(i) => (txt[..i].to_string(), txt[i + 1..txt.len() - 1].to_string(), true),
                    None => (txt.clone(), String::new(), false),
                };
                let mut ins = Instr::new(&name, *ded, &body);
                if !parens && ded.is_none() {
                    ins.parens = false;
                }
                tags.push(format!("{}:{}={}", fam, ded.unwrap_or("default"), c));
                if txt.contains("p@") {
                    uses_child = true;
                }
                match *fam {
                    "where_clause" | "ghosts" | "child_parents" => type_attrs.push(ins),
                    _ => {
                        if *fam == "parent" {
                            m_ty = "P";
                        }
                        if *fam == "child" {
                            uses_child = true;
                        }
                        m_attrs.push(ins);
                    }
                }
            }
        }
        if n == 0 {
            return ctx.reject();
        }
        if uses_child && !type_attrs.iter().any(|a| a.name == "child_parents" && a.ded.is_none()) {
            // the nested structs are named for both counterparts, or for T alone (with a kind hint of its own): U then has
            // no entry - legal for From / IntoExisting, and nothing of T's entry may reach U's impls (seeds C06-10, C06-11)
            if ctx.flag() {
                type_attrs.push(Instr::new("child_parents", Some("T"), "p: P as (), p.q: Q"));
                tags.push("child_parents=T-only".into());
            } else {
                type_attrs.push(Instr::new("child_parents", None, "p: P, p.q: Q"));
            }
        }
        let mut it = Item::new_struct("S", Shape::Named, vec![Field { attrs: m_attrs, name: Some("m".into()), ty: m_ty.into() }, Field::named("b", "i32")]);
        // T is either mapped both ways or only converted into (an untyped nested parent is legal for Into-only counterparts)
        let t_into_only = ctx.flag();
        if t_into_only {
            tags.push("T=into-only".into());
        }
        // U is either mapped both ways or only From / IntoExisting (which need no #[child_parents])
        let u_existing_only = ctx.flag();
        if u_existing_only {
            tags.push("U=from+existing-only".into());
        }
        for cp in ["T", "U"] {
            it.attrs.push(Instr::new(if cp == "T" && t_into_only { "into" } else if cp == "U" && u_existing_only { "from" } else { "map" }, None, cp));
            it.attrs.push(Instr::new("into_existing", None, cp));
        }
        it.attrs.extend(type_attrs);
        Some(FCase { item: it, tags })
    } else {
        let fams: [(&str, &[&str]); 6] = [
            ("vmap", &["map(X{d})", "from(Y{d})", "into(Z{d})"]),
            ("vghost", &["ghost({ DST::G{d} })", "ghost_owned({ DST::G{d} })"]),
            ("type_hint", &["type_hint(as ())", "type_hint(as {})", "type_hint(as Unit)"]),
            ("literal", &["literal({n})"]),
            ("pattern", &["pattern({n}..=9{n})"]),
            ("where_clause", &["where_clause(P{d}: Clone)"]),
        ];
        let mut n = 0;
        for (fi, (fam, forms)) in fams.iter().enumerate() {
            for (si, ded) in slots.iter().enumerate() {
                let c = ctx.choose(forms.len() + 1);
                if c == 0 {
                    continue;
                }
                n += 1;
                let txt = forms[c - 1].replace("{d}", &si.to_string()).replace("{n}", &(10 * fi + si + 1).to_string()).replace("DST", ded.unwrap_or("T"));
                let i = txt.find('(').unwrap();
                let ins = Instr::new(&txt[..i], *ded, &txt[i + 1..txt.len() - 1]);
                tags.push(format!("{}:{}={}", fam, ded.unwrap_or("default"), c));
                if *fam == "where_clause" {
                    type_attrs.push(ins);
                } else {
                    m_attrs.push(ins);
                }
            }
        }
        if n == 0 {
            return ctx.reject();
        }
        // enum-level ghosts family
        for (si, ded) in slots.iter().enumerate() {
            if ctx.flag() {
                type_attrs.push(Instr::new("ghosts", *ded, &format!("Y{}: {{ S::B }}", si)));
                tags.push(format!("eghosts:{}", ded.unwrap_or("default")));
            }
        }
        let payload = ctx.flag();
        let va = Variant { attrs: m_attrs, name: "A".into(), shape: if payload { Shape::Tuple } else { Shape::Unit }, fields: if payload { vec![Field::pos("i32")] } else { vec![] } };
        let mut it = Item::new_enum("S", vec![va, Variant { attrs: vec![], name: "B".into(), shape: Shape::Unit, fields: vec![] }]);
        for cp in ["T", "U"] {
            it.attrs.push(Instr::new("map", None, &format!("{}| _ => todo!()", cp)));
        }
        it.attrs.extend(type_attrs);
        Some(FCase { item: it, tags })
    }
}
