//! "Every instruction name at every level" hosts for the corpus: the feature-interaction generators use the everyday
//! names; these spaces put each of the 24 trait / 21 member mapping names (and ghost names) at type, field, variant,
//! variant-field and nested-parent level, in default and dedicated form, alone and in pairs.

use crate::explore::Ctx;
use crate::feat::FCase;
use crate::item::{Field, Instr, Item, Shape, Variant};
use crate::model::{all_trait_names, appl, member_map_names, INFALLIBLE_NAMES};

fn trait_set(it: &mut Item, existing: bool) {
    for cp in ["T", "U"] {
        it.attrs.push(Instr::new("map", None, cp));
        it.attrs.push(Instr::new("try_map", None, &format!("{}, Er", cp)));
        if existing {
            it.attrs.push(Instr::new("into_existing", None, cp));
            it.attrs.push(Instr::new("try_into_existing", None, &format!("{}, Er", cp)));
        }
    }
}

/// field level: sequences of <= k member instructions (as in C05)
pub fn gen_member(ctx: &mut Ctx, k: usize) -> Option<FCase> {
    use crate::props::Space;
    let sp = crate::props::c05::Prec { max_instr: k };
    let c = sp.gen(ctx)?;
    Some(FCase { item: crate::props::c05::to_item(&c.instrs), tags: c.tags })
}

/// variant level + variant-field level
pub fn gen_variant(ctx: &mut Ctx, k: usize) -> Option<FCase> {
    let names: Vec<&str> = member_map_names().into_iter().filter(|n| !n.contains("existing")).collect();
    let gnames = ["ghost", "ghost_owned", "ghost_ref"];
    let named = ctx.flag();
    let n = 1 + ctx.choose(k);
    let mut vattrs = vec![];
    let mut tags = vec!["host=enum".to_string(), "names=variant".to_string()];
    let mut used: Vec<(String, Option<&str>)> = vec![];
    for i in 0..n {
        let x = ctx.choose(names.len() + gnames.len());
        let ded = [None, Some("T"), Some("U")][ctx.choose(3)];
        let name = if x < names.len() { names[x] } else { gnames[x - names.len()] };
        if used.contains(&(name.to_string(), ded)) {
            return ctx.reject();
        }
        used.push((name.to_string(), ded));
        if x < names.len() {
            vattrs.push(Instr::new(name, ded, &format!("X{}", i)));
        } else {
            vattrs.push(Instr::new(name, ded, &format!("{{ T::Z{} }}", i)));
        }
        tags.push(format!("instr={}{}", name, ded.map(|d| format!("|{}", d)).unwrap_or_default()));
    }
    // one instruction on the payload field
    let mut f = if named { Field::named("x", "i32") } else { Field::pos("i32") };
    let fx = ctx.choose(names.len() + 1);
    if fx > 0 {
        let ded = [None, Some("T"), Some("U")][ctx.choose(3)];
        f.attrs.push(Instr::new(names[fx - 1], ded, &if named { "y, ~ + 7".to_string() } else { "~ + 7".to_string() }));
        tags.push(format!("finstr={}", names[fx - 1]));
    }
    let vs = vec![Variant { attrs: vattrs, name: "A".into(), shape: if named { Shape::Named } else { Shape::Tuple }, fields: vec![f] }, Variant { attrs: vec![], name: "B".into(), shape: Shape::Unit, fields: vec![] }];
    let mut it = Item::new_enum("S", vs);
    for cp in ["T", "U"] {
        it.attrs.push(Instr::new("map", None, &format!("{}| _ => panic!()", cp)));
        it.attrs.push(Instr::new("try_map", None, &format!("{}, Er| _ => panic!()", cp)));
    }
    Some(FCase { item: it, tags })
}

/// type level: <= k of the 24 trait-instruction names over two counterparts, on hosts whose members carry
/// kind-specific instructions
pub fn gen_type(ctx: &mut Ctx, k: usize) -> Option<FCase> {
    let names = all_trait_names();
    let is_enum = ctx.flag();
    let n = 1 + ctx.choose(k);
    let mut attrs = vec![];
    let mut used = vec![];
    let mut tags = vec![format!("host={}", if is_enum { "enum" } else { "struct" }), "names=type".to_string()];
    for i in 0..n {
        let name = names[ctx.choose(names.len())];
        let cp = if i == 0 { "T" } else { ["T", "U"][ctx.choose(2)] };
        let (dirs, fallible) = appl(name).unwrap();
        for d in &dirs {
            if used.contains(&(cp, *d, fallible)) {
                return ctx.reject();
            }
            used.push((cp, *d, fallible));
        }
        if is_enum && dirs.iter().any(|d| d.is_existing()) {
            return ctx.reject();
        }
        attrs.push(Instr::new(name, None, &format!("{}{}", cp, if fallible { ", Er" } else { "" })));
        tags.push(format!("instr={}", name));
    }
    let mut it = if is_enum {
        Item::new_enum(
            "S",
            vec![
                Variant { attrs: vec![Instr::new("from", None, "X0"), Instr::new("try_into", Some("T"), "X1")], name: "A".into(), shape: Shape::Tuple, fields: vec![Field::pos("i32").with(Instr::new("ref_into", None, "*~ + 1"))] },
                Variant { attrs: vec![], name: "B".into(), shape: Shape::Unit, fields: vec![] },
            ],
        )
    } else {
        Item::new_struct(
            "S",
            Shape::Named,
            vec![
                Field::named("a", "i32").with(Instr::new("from_owned", None, "x, ~ + 1")).with(Instr::new("try_into", Some("T"), "y, ~ + 2")).with(Instr::new("ref_into_existing", None, "z")),
                Field::named("b", "i32").with(Instr::new("ghost_ref", Some("U"), "{ 3 }")),
                Field::named("c", "i32"),
            ],
        )
    };
    it.attrs = attrs;
    Some(FCase { item: it, tags })
}

/// nested level: `[name(..)]` instructions inside a parameterised #[parent(..)]
pub fn gen_parent(ctx: &mut Ctx, k: usize) -> Option<FCase> {
    let names: Vec<&str> = INFALLIBLE_NAMES.iter().map(|x| x.0).collect();
    let n = 1 + ctx.choose(k);
    let mut nested = String::new();
    let mut tags = vec!["host=struct".to_string(), "names=parent".to_string()];
    let mut used = vec![];
    for i in 0..n {
        let name = names[ctx.choose(names.len())];
        if used.contains(&name) {
            return ctx.reject();
        }
        used.push(name);
        let body = match ctx.choose(3) {
            0 => format!("px{}", i),
            1 => format!("px{}, ~ + {}", i, i + 1),
            _ => format!("~ + {}", i + 1),
        };
        nested.push_str(&format!("[{}({})] ", name, body));
        tags.push(format!("nested={}", name));
    }
    let deeper = ctx.flag();
    let body = if deeper { format!("{}pa, [parent({}pq)] pp: PP, pb", nested, nested) } else { format!("{}pa, pb", nested) };
    let mut it = Item::new_struct("S", Shape::Named, vec![Field { attrs: vec![Instr::new("parent", None, &body)], name: Some("p".into()), ty: "P".into() }, Field::named("c", "i32")]);
    trait_set(&mut it, true);
    Some(FCase { item: it, tags })
}
