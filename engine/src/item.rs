//! A small AST of derive inputs (what the generators build and the metamorphic transforms rewrite) + its renderer.

use std::fmt::Write;

/// Attributes the macro crate registers as bare (`o2o-macros/src/lib.rs`, `attributes(..)`); read at start-up by
/// `bare_attrs()` so C13 follows the source. This constant is only the fallback.
pub const BARE_FALLBACK: &[&str] = &[
    "owned_into", "ref_into", "into", "from_owned", "from_ref", "from", "map_owned", "map_ref", "map", "owned_try_into", "ref_try_into", "try_into",
    "owned_into_existing", "ref_into_existing", "into_existing", "try_from_owned", "try_from_ref", "try_from", "try_map_owned", "try_map_ref", "try_map",
    "owned_try_into_existing", "ref_try_into_existing", "try_into_existing", "child", "children", "child_parents", "parent", "ghost", "ghosts",
    "where_clause", "literal", "pattern", "type_hint", "o2o",
];

pub fn bare_attrs() -> &'static Vec<String> {
    use std::sync::OnceLock;
    static V: OnceLock<Vec<String>> = OnceLock::new();
    V.get_or_init(|| {
        let path = std::env::var("O2O_REPO").unwrap_or_else(|_| "/repo".into()) + "/o2o-macros/src/lib.rs";
        if let Ok(src) = std::fs::read_to_string(&path) {
            if let Some(i) = src.find("attributes(") {
                let rest = &src[i + "attributes(".len()..];
                if let Some(j) = rest.find(')') {
                    let v: Vec<String> = rest[..j].split(',').map(|s| s.trim().to_string()).filter(|s| !s.is_empty() && s.chars().all(|c| c.is_alphanumeric() || c == '_')).collect();
                    if !v.is_empty() {
                        return v;
                    }
                }
            }
        }
        BARE_FALLBACK.iter().map(|s| s.to_string()).collect()
    })
}

pub fn has_bare_form(name: &str) -> bool {
    name != "o2o" && bare_attrs().iter().any(|a| a == name)
}

#[derive(Clone, Copy, Debug, PartialEq, Eq, Hash, PartialOrd, Ord)]
pub enum Form {
    /// `#[name(args)]`
    Bare,
    /// `#[o2o(name(args))]` - opens a new list
    O2o,
    /// joins the `#[o2o(..)]` list opened by the previous instruction
    Join,
}

#[derive(Clone, Debug, PartialEq, Eq, Hash, PartialOrd, Ord)]
pub struct Instr {
    pub name: String,
    /// dedicated counterpart type (`T| ...`)
    pub ded: Option<String>,
    pub body: String,
    /// false: `#[name]` without parentheses
    pub parens: bool,
    pub form: Form,
    /// trailing comma inside an o2o list that ends with this instruction
    pub trailing_comma: bool,
    /// not an o2o instruction of this level (foreign / colliding attribute): never respelled
    pub fixed: bool,
}

impl Instr {
    pub fn new(name: &str, ded: Option<&str>, body: &str) -> Instr {
        let form = if has_bare_form(name) { Form::Bare } else { Form::O2o };
        Instr { name: name.into(), ded: ded.map(|s| s.to_string()), body: body.into(), parens: true, form, trailing_comma: false, fixed: false }
    }
    pub fn word(name: &str) -> Instr {
        let mut i = Instr::new(name, None, "");
        i.parens = false;
        i
    }
    pub fn args(&self) -> String {
        match &self.ded {
            Some(d) => {
                if self.body.is_empty() {
                    format!("{}|", d)
                } else {
                    format!("{}| {}", d, self.body)
                }
            }
            None => self.body.clone(),
        }
    }
    pub fn call(&self) -> String {
        if self.parens {
            format!("{}({})", self.name, self.args())
        } else {
            self.name.clone()
        }
    }
}

pub fn render_attrs(attrs: &[Instr], indent: &str, out: &mut String) {
    let mut i = 0;
    while i < attrs.len() {
        let a = &attrs[i];
        match a.form {
            Form::Bare => {
                let _ = writeln!(out, "{}#[{}]", indent, a.call());
                i += 1;
            }
            Form::O2o | Form::Join => {
                let mut parts = vec![a.call()];
                let mut j = i + 1;
                while j < attrs.len() && attrs[j].form == Form::Join {
                    parts.push(attrs[j].call());
                    j += 1;
                }
                let tc = if attrs[j - 1].trailing_comma { "," } else { "" };
                let _ = writeln!(out, "{}#[o2o({}{})]", indent, parts.join(", "), tc);
                i = j;
            }
        }
    }
}

#[derive(Clone, Copy, Debug, PartialEq, Eq, Hash, PartialOrd, Ord)]
pub enum Shape {
    Named,
    Tuple,
    Unit,
}

#[derive(Clone, Debug, PartialEq, Eq, Hash)]
pub struct Field {
    pub attrs: Vec<Instr>,
    pub name: Option<String>,
    pub ty: String,
}

impl Field {
    pub fn named(name: &str, ty: &str) -> Field {
        Field { attrs: vec![], name: Some(name.into()), ty: ty.into() }
    }
    pub fn pos(ty: &str) -> Field {
        Field { attrs: vec![], name: None, ty: ty.into() }
    }
    pub fn with(mut self, i: Instr) -> Field {
        self.attrs.push(i);
        self
    }
}

#[derive(Clone, Debug, PartialEq, Eq, Hash)]
pub struct Variant {
    pub attrs: Vec<Instr>,
    pub name: String,
    pub shape: Shape,
    pub fields: Vec<Field>,
}

#[derive(Clone, Debug, PartialEq, Eq, Hash)]
pub enum Body {
    Struct { shape: Shape, fields: Vec<Field> },
    Enum { variants: Vec<Variant> },
    Union { fields: Vec<Field> },
}

#[derive(Clone, Debug, PartialEq, Eq, Hash)]
pub struct Item {
    pub attrs: Vec<Instr>,
    pub name: String,
    /// e.g. `<'a, T: Clone>` (with angle brackets) or ""
    pub generics: String,
    /// e.g. `where T: Copy` or ""
    pub where_clause: String,
    pub body: Body,
}

fn render_fields(shape: Shape, fields: &[Field], indent: &str, out: &mut String) {
    match shape {
        Shape::Unit => {}
        Shape::Named => {
            out.push_str(" {\n");
            for f in fields {
                render_attrs(&f.attrs, &format!("{}    ", indent), out);
                let _ = writeln!(out, "{}    {}: {},", indent, f.name.as_deref().unwrap_or("_"), f.ty);
            }
            let _ = write!(out, "{}}}", indent);
        }
        Shape::Tuple => {
            out.push_str("(\n");
            for f in fields {
                render_attrs(&f.attrs, &format!("{}    ", indent), out);
                let _ = writeln!(out, "{}    {},", indent, f.ty);
            }
            let _ = write!(out, "{})", indent);
        }
    }
}

impl Item {
    pub fn new_struct(name: &str, shape: Shape, fields: Vec<Field>) -> Item {
        Item { attrs: vec![], name: name.into(), generics: String::new(), where_clause: String::new(), body: Body::Struct { shape, fields } }
    }
    pub fn new_enum(name: &str, variants: Vec<Variant>) -> Item {
        Item { attrs: vec![], name: name.into(), generics: String::new(), where_clause: String::new(), body: Body::Enum { variants } }
    }
    /// Source text of the item, without any `#[derive]` line (engine A parses it as a DeriveInput as is).
    pub fn render(&self) -> String {
        let mut out = String::new();
        render_attrs(&self.attrs, "", &mut out);
        match &self.body {
            Body::Struct { shape, fields } => {
                let _ = write!(out, "struct {}{}", self.name, self.generics);
                match shape {
                    Shape::Named => {
                        if !self.where_clause.is_empty() {
                            let _ = write!(out, " {}", self.where_clause);
                        }
                        render_fields(*shape, fields, "", &mut out);
                    }
                    Shape::Tuple => {
                        render_fields(*shape, fields, "", &mut out);
                        if !self.where_clause.is_empty() {
                            let _ = write!(out, " {}", self.where_clause);
                        }
                        out.push(';');
                    }
                    Shape::Unit => {
                        if !self.where_clause.is_empty() {
                            let _ = write!(out, " {}", self.where_clause);
                        }
                        out.push(';');
                    }
                }
            }
            Body::Enum { variants } => {
                let _ = write!(out, "enum {}{}", self.name, self.generics);
                if !self.where_clause.is_empty() {
                    let _ = write!(out, " {}", self.where_clause);
                }
                out.push_str(" {\n");
                for v in variants {
                    render_attrs(&v.attrs, "    ", &mut out);
                    let _ = write!(out, "    {}", v.name);
                    render_fields(v.shape, &v.fields, "    ", &mut out);
                    out.push_str(",\n");
                }
                out.push('}');
            }
            Body::Union { fields } => {
                let _ = write!(out, "union {}{}", self.name, self.generics);
                render_fields(Shape::Named, fields, "", &mut out);
            }
        }
        out.push('\n');
        out
    }

    /// all attribute lists of the item, mutable: type level, then each member (and each variant field)
    pub fn attr_lists_mut(&mut self) -> Vec<&mut Vec<Instr>> {
        let mut v: Vec<&mut Vec<Instr>> = vec![&mut self.attrs];
        match &mut self.body {
            Body::Struct { fields, .. } | Body::Union { fields } => {
                for f in fields {
                    v.push(&mut f.attrs);
                }
            }
            Body::Enum { variants } => {
                for var in variants {
                    v.push(&mut var.attrs);
                    for f in &mut var.fields {
                        v.push(&mut f.attrs);
                    }
                }
            }
        }
        v
    }
    pub fn attr_lists(&self) -> Vec<&Vec<Instr>> {
        let mut v: Vec<&Vec<Instr>> = vec![&self.attrs];
        match &self.body {
            Body::Struct { fields, .. } | Body::Union { fields } => {
                for f in fields {
                    v.push(&f.attrs);
                }
            }
            Body::Enum { variants } => {
                for var in variants {
                    v.push(&var.attrs);
                    for f in &var.fields {
                        v.push(&f.attrs);
                    }
                }
            }
        }
        v
    }
    pub fn is_enum(&self) -> bool {
        matches!(self.body, Body::Enum { .. })
    }
}
