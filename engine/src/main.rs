mod explore;
mod item;
mod model;
mod report;
#[cfg(feature = "b1")]
mod rt;
#[cfg(feature = "b1")]
mod sem_struct;
#[cfg(feature = "b1")]
mod sem_enum;
#[cfg(feature = "b1")]
mod sem_flat;
#[cfg(feature = "b1")]
mod sem_diff;
#[cfg(feature = "b1")]
mod sem_prim;
#[cfg(feature = "b1")]
mod feat;
#[cfg(feature = "b1")]
mod corpus;
#[cfg(feature = "b1")]
mod meta;
#[cfg(feature = "b1")]
mod faults;
#[cfg(feature = "b1")]
mod names;
mod xp;
#[cfg(o2o_verif)]
mod orders;
#[cfg(feature = "b1")]
mod ir;
#[cfg(feature = "b1")]
mod props;

fn usage() -> ! {
    eprintln!("usage: o2ov check <ID> [--tier quick|thorough] | o2ov replay <path> | o2ov expand-file <in> <out> | o2ov show <ID> <space> <choices,...>");
    std::process::exit(2)
}

fn main() {
    let args: Vec<String> = std::env::args().collect();
    if args.len() < 2 {
        usage();
    }
    match args[1].as_str() {
        #[cfg(feature = "b1")]
        "check" => {
            if args.len() < 3 {
                usage();
            }
            let mut tier = std::env::var("VERIF_TIER").unwrap_or_else(|_| "quick".into());
            let mut i = 3;
            while i < args.len() {
                if args[i] == "--tier" && i + 1 < args.len() {
                    tier = args[i + 1].clone();
                    i += 1;
                }
                i += 1;
            }
            if tier != "quick" && tier != "thorough" {
                usage();
            }
            std::process::exit(props::run_check(&args[2], &tier));
        }
        #[cfg(feature = "b1")]
        "replay" => {
            if args.len() < 3 {
                usage();
            }
            std::process::exit(props::run_replay(&args[2]));
        }
        #[cfg(o2o_verif)]
        "c19-orders" => {
            if args.len() < 4 {
                usage();
            }
            std::process::exit(orders::run(&args[2], &args[3]));
        }
        "x" => {
            // debugging aid: expand one derive input read from a file, print the verdict and the impls one per paragraph
            let src = std::fs::read_to_string(&args[2]).expect("readable input file");
            match xp::expand_ts(&src) {
                Ok(Ok(ts)) => match xp::split_impls(&ts) {
                    Some(v) => v.iter().for_each(|i| println!("{}\n", xp::canon(i))),
                    None => println!("UNSPLITTABLE: {}", xp::canon(&ts)),
                },
                Ok(Err(m)) => println!("REJECTED: {:?}", m),
                Err(x) => println!("{}", x.short()),
            }
            std::process::exit(0);
        }
        "expand-file" => {
            if args.len() < 4 {
                usage();
            }
            std::process::exit(expand_file(&args[2], &args[3]));
        }
        _ => usage(),
    }
}

/// C18 back-end service: read inputs (JSON lines: {"k": key, "s": source}), write {"k", "v": verdict, "t": tokens|null, "m": messages}
fn expand_file(inp: &str, out: &str) -> i32 {
    use rayon::prelude::*;
    use std::io::{BufRead, Write};
    let f = match std::fs::File::open(inp) {
        Ok(f) => f,
        Err(e) => {
            eprintln!("MACHINERY-ERROR: cannot open {}: {}", inp, e);
            return 2;
        }
    };
    let lines: Vec<String> = std::io::BufReader::new(f).lines().map(|l| l.unwrap()).collect();
    let res: Vec<String> = lines
        .par_iter()
        .map(|l| {
            let v: serde_json::Value = serde_json::from_str(l).unwrap();
            let k = v["k"].as_str().unwrap();
            let s = v["s"].as_str().unwrap();
            let x = xp::expand(s);
            let o = match &x {
                xp::Xp::Ok(t) => serde_json::json!({"k": k, "v": "ok", "t": t}),
                xp::Xp::Err(m) => serde_json::json!({"k": k, "v": "err", "m": m}),
                xp::Xp::Panic { msg, loc } => serde_json::json!({"k": k, "v": "panic", "m": [format!("{} @ {}", msg, loc)]}),
                xp::Xp::NotAnItem(e) => serde_json::json!({"k": k, "v": "not-an-item", "m": [e]}),
            };
            o.to_string()
        })
        .collect();
    let mut w = std::io::BufWriter::new(std::fs::File::create(out).unwrap());
    for r in res {
        writeln!(w, "{}", r).unwrap();
    }
    0
}
