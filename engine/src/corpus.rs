//! The host corpus shared by the structural and metamorphic checks: named spaces of well-formed derive inputs.

use crate::explore::{explore, Caps, Ctx};
use crate::feat::{gen_enum, gen_enum_prim, gen_struct, FCase, FOpts};
use crate::report::Report;
use crate::sem_struct::{self, Flavour};

pub struct CSpace {
    pub name: String,
    pub gen: Box<dyn Fn(&mut Ctx) -> Option<FCase> + Sync>,
    pub bound: Option<usize>,
}

fn sem(o: sem_struct::Opts) -> Box<dyn Fn(&mut Ctx) -> Option<FCase> + Sync> {
    Box::new(move |ctx| {
        let c = sem_struct::gen(ctx, &o)?;
        if c.form == sem_struct::CpForm::BareTuple {
            let fl = if ctx.flag() { Flavour::Fallible } else { Flavour::Infallible };
            return Some(FCase { item: c.item("S", fl), tags: c.tags.clone() });
        }
        Some(FCase { item: c.item("S", Flavour::Both), tags: c.tags.clone() })
    })
}

/// `tier`: "quick" | "mid" (the thorough tier of the checks that multiply the corpus: C06, C12, C13, C19) | "thorough"
pub fn spaces(tier: &str) -> Vec<CSpace> {
    let quick = tier == "quick";
    let mid = tier == "mid";
    // (quick, mid, thorough) deviation bounds
    let b3 = |q: Option<usize>, m: Option<usize>, t: Option<usize>| if quick { q } else if mid { m } else { t };
    let mut v = vec![];
    v.push(CSpace {
        name: "sem-struct".into(),
        gen: sem(sem_struct::Opts { max_n: 2, menu: sem_struct::MENU_FULL, max_ghosts: 1, allow_update: true, permute_idx: true }),
        bound: b3(Some(5), Some(7), None),
    });
    v.push(CSpace {
        name: "feat-struct".into(),
        gen: Box::new(move |ctx| gen_struct(ctx, &FOpts { max_members: if quick { 2 } else { 3 }, two_counterparts: true, force_two: false, full_menu: true, params: true })),
        bound: b3(Some(4), Some(5), Some(6)),
    });
    v.push(CSpace {
        name: "feat-enum".into(),
        gen: Box::new(move |ctx| gen_enum(ctx, &FOpts { max_members: if quick { 2 } else { 3 }, two_counterparts: true, force_two: false, full_menu: true, params: true })),
        bound: b3(Some(4), Some(5), Some(6)),
    });
    let k = if quick { 1 } else { 2 };
    v.push(CSpace { name: "names-member".into(), gen: Box::new(move |ctx| crate::names::gen_member(ctx, 2)), bound: b3(Some(4), Some(5), None) });
    v.push(CSpace { name: "names-variant".into(), gen: Box::new(move |ctx| crate::names::gen_variant(ctx, k + 1)), bound: b3(Some(3), Some(5), Some(7)) });
    v.push(CSpace { name: "names-type".into(), gen: Box::new(move |ctx| crate::names::gen_type(ctx, 2)), bound: b3(Some(4), Some(5), None) });
    v.push(CSpace { name: "names-parent".into(), gen: Box::new(move |ctx| crate::names::gen_parent(ctx, 2)), bound: b3(Some(5), Some(6), None) });
    v.push(CSpace { name: "allow-unknown".into(), gen: Box::new(|ctx| crate::names::gen_allow_unknown(ctx)), bound: b3(Some(5), Some(6), None) });
    v.push(CSpace { name: "faulty".into(), gen: Box::new(|ctx| crate::names::gen_faulty(ctx)), bound: b3(Some(3), Some(4), None) });
    // the semantic flattening / enum generators of C02, C03 as hosts (ghost-only nested structs, positional paths,
    // nested parameterised parents, variant-level instructions) - added after seeds C19-02, C07-02
    v.push(CSpace {
        name: "sem-flat".into(),
        gen: Box::new(|ctx| crate::sem_flat::gen_child(ctx, &crate::sem_flat::FlatOpts { max_members: 3, max_ghosts: 2, max_depth: 2, positional: false, ..crate::sem_flat::FlatOpts::DEF }).map(|c| FCase { item: c.item("S", true), tags: c.tags.clone() })),
        bound: b3(Some(4), Some(6), Some(7)),
    });
    v.push(CSpace {
        name: "sem-flat-pos".into(),
        gen: Box::new(|ctx| crate::sem_flat::gen_child(ctx, &crate::sem_flat::FlatOpts { max_members: 3, max_ghosts: 2, max_depth: 2, positional: true, ..crate::sem_flat::FlatOpts::DEF }).map(|c| FCase { item: c.item("S", true), tags: c.tags.clone() })),
        bound: b3(Some(4), Some(5), Some(6)),
    });
    v.push(CSpace {
        name: "sem-parent".into(),
        gen: Box::new(|ctx| crate::sem_flat::gen_parent(ctx, 3).map(|c| FCase { item: c.item("S", true), tags: c.tags.clone() })),
        bound: b3(Some(4), Some(5), Some(6)),
    });
    v.push(CSpace {
        name: "sem-enum".into(),
        gen: Box::new(|ctx| crate::sem_enum::gen(ctx, &crate::sem_enum::EOpts { max_variants: 2, max_fields: 2, full_menu: true }).map(|c| FCase { item: c.item("S", None), tags: c.tags.clone() })),
        bound: b3(Some(4), Some(5), Some(6)),
    });
    v.push(CSpace { name: "generic".into(), gen: Box::new(|ctx| crate::feat::gen_generic(ctx)), bound: None });
    v.push(CSpace { name: "feat-enum-prim".into(), gen: Box::new(|ctx| gen_enum_prim(ctx, &FOpts { max_members: 3, two_counterparts: false, force_two: false, full_menu: true, params: false })), bound: None });
    v
}

/// two-counterpart hosts (C06)
pub fn spaces_2cp(tier: &str) -> Vec<CSpace> {
    let quick = tier == "quick";
    let mid = tier == "mid";
    let b3 = |q: Option<usize>, m: Option<usize>, t: Option<usize>| if quick { q } else if mid { m } else { t };
    vec![
        CSpace { name: "dedication".into(), gen: Box::new(|ctx| crate::names::gen_dedication(ctx)), bound: b3(Some(4), Some(5), Some(6)) },
        CSpace {
            name: "feat-struct-2cp".into(),
            gen: Box::new(move |ctx| gen_struct(ctx, &FOpts { max_members: if quick { 2 } else { 3 }, two_counterparts: true, force_two: true, full_menu: true, params: false })),
            bound: b3(Some(4), Some(5), Some(6)),
        },
        CSpace {
            name: "feat-enum-2cp".into(),
            gen: Box::new(move |ctx| gen_enum(ctx, &FOpts { max_members: if quick { 2 } else { 3 }, two_counterparts: true, force_two: true, full_menu: true, params: false })),
            bound: b3(Some(4), Some(5), Some(6)),
        },
    ]
}

pub fn for_each<V: Fn(&str, &[u32], FCase) + Sync>(tier: &str, caps: &Caps, rep: &Report, visit: V) {
    for_each_in(spaces(tier), caps, rep, visit)
}

/// explore every corpus space; `visit(space name, choices, case)`
pub fn for_each_in<V: Fn(&str, &[u32], FCase) + Sync>(sps: Vec<CSpace>, caps: &Caps, rep: &Report, visit: V) {
    for sp in sps {
        let st = explore(|ctx| (sp.gen)(ctx), sp.bound, caps, |ch, c| visit(&sp.name, ch, c));
        let b = sp.bound.map(|b| format!("dev({})", b)).unwrap_or_else(|| "full".into());
        rep.add_stats(&sp.name, &b, &st);
        eprintln!("  space {} [{}]: {} choice vectors, {} pruned{}", sp.name, b, st.leaves, st.pruned, if st.capped { " (CAPPED)" } else { "" });
    }
}

pub fn replay_case(tier_spaces: &[&str], space: &str, choices: &[u32]) -> Option<FCase> {
    let _ = tier_spaces;
    for t in ["quick", "mid", "thorough"] {
        for sp in spaces(t).into_iter().chain(spaces_2cp(t)) {
            if sp.name == space {
                let (c, full) = crate::explore::replay_one(|ctx| (sp.gen)(ctx), choices);
                if full == choices {
                    if let Some(c) = c {
                        return Some(c);
                    }
                }
            }
        }
    }
    None
}
