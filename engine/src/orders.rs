//! Hooks build only (`--cfg o2o_verif`): exhaustive exploration of hash-container iteration orders.
#![cfg(o2o_verif)]

use crate::explore::{Caps, Ctx};
use crate::xp::{expand, Xp};
use o2o_impl::verif_shim as shim;
use serde_json::{json, Value};
use std::cell::Cell;
use std::io::BufRead;
use std::sync::atomic::{AtomicU64, Ordering};
use std::sync::Mutex;

thread_local! {
    static CUR: Cell<*mut Ctx> = Cell::new(std::ptr::null_mut());
    static INSTALLED: Cell<bool> = Cell::new(false);
}

fn install() {
    INSTALLED.with(|i| {
        if !i.get() {
            shim::set_order_oracle(Some(Box::new(|n: usize| {
                let p = CUR.with(|c| c.get());
                if p.is_null() || n < 2 {
                    (0..n).collect()
                } else {
                    // the explorer decides the order: a choice point made while the real code runs
                    unsafe { (*p).permutation(n) }
                }
            })));
            i.set(true);
        }
    });
}

fn render(x: &Xp) -> String {
    match x {
        Xp::Ok(t) => format!("OK {}", t),
        Xp::Err(m) => format!("ERR {}", m.join(" || ")),
        Xp::Panic { msg, loc } => format!("PANIC {} @ {}", msg, loc.split(':').next().unwrap_or("")),
        Xp::NotAnItem(e) => format!("NOTITEM {}", e),
    }
}

fn selftest() -> &'static str {
    // the stand-in containers really hand the order to the oracle
    let mut m: shim::HashMap<u32, u32> = shim::HashMap::new();
    for i in 0..3 {
        m.insert(i, i);
    }
    shim::set_order_oracle(Some(Box::new(|n| (0..n).collect())));
    let a: Vec<u32> = m.iter().map(|x| *x.0).collect();
    shim::set_order_oracle(Some(Box::new(|n| (0..n).rev().collect())));
    let b: Vec<u32> = m.keys().cloned().collect();
    shim::set_order_oracle(None);
    INSTALLED.with(|i| i.set(false));
    let ev = shim::take_events();
    if a.iter().rev().cloned().collect::<Vec<_>>() == b && ev == vec![3, 3] { "ok" } else { "shim not live" }
}

pub fn run(inp: &str, outp: &str) -> i32 {
    let st = selftest();
    let lines: Vec<String> = std::io::BufReader::new(std::fs::File::open(inp).unwrap()).lines().map(|l| l.unwrap()).collect();
    let srcs: Vec<String> = lines.iter().map(|l| serde_json::from_str::<Value>(l).unwrap()["s"].as_str().unwrap().to_string()).collect();
    let n = srcs.len();
    let baseline: Mutex<Vec<String>> = Mutex::new(vec![String::new(); n]);
    let failures: Mutex<Vec<Value>> = Mutex::new(vec![]);
    let schedules = AtomicU64::new(0);
    let events = AtomicU64::new(0);
    let edges = AtomicU64::new(0);
    let sizes: Mutex<std::collections::BTreeMap<usize, u64>> = Mutex::new(Default::default());
    let caps = Caps::from_env(3000.0);
    // the outer explorer only distributes cases over threads; the inner, per-case exploration is sequential and exhaustive
    use rayon::prelude::*;
    (0..n).into_par_iter().for_each(|k| {
        install();
        let src = &srcs[k];
        // baseline: base order (all choices default)
        let mut ctx0 = Ctx::replay(&[]);
        CUR.with(|c| c.set(&mut ctx0 as *mut Ctx));
        let _ = shim::take_events();
        let b = render(&expand(src));
        CUR.with(|c| c.set(std::ptr::null_mut()));
        let ev = shim::take_events();
        events.fetch_add(ev.len() as u64, Ordering::Relaxed);
        {
            let mut s = sizes.lock().unwrap();
            for e in &ev {
                *s.entry(*e).or_insert(0) += 1;
            }
        }
        baseline.lock().unwrap()[k] = b.clone();
        let big = ev.iter().any(|e| *e > 6);
        // every order of every iterated container (single-threaded explorer per case: jobs are the cases)
        let mut stack: Vec<Vec<u32>> = vec![vec![]];
        let mut local = 0u64;
        while let Some(prefix) = stack.pop() {
            let mut ctx = Ctx::replay(&prefix);
            CUR.with(|c| c.set(&mut ctx as *mut Ctx));
            let out = render(&expand(src));
            CUR.with(|c| c.set(std::ptr::null_mut()));
            let _ = shim::take_events();
            local += 1;
            if out != b {
                let mut f = failures.lock().unwrap();
                if f.len() < 500 {
                    f.push(json!({"k": k, "detail": format!("iteration order {:?} of the hash containers changes the result", ctx.choices), "expected": crate::xp::trunc(&b, 500), "observed": crate::xp::trunc(&out, 500)}));
                }
            }
            let devs = prefix.iter().filter(|c| **c != 0).count();
            for i in prefix.len()..ctx.choices.len() {
                edges.fetch_add(ctx.arities[i] as u64, Ordering::Relaxed);
                if big && devs + 1 > 2 {
                    continue;
                }
                for alt in 1..ctx.arities[i] {
                    let mut p = ctx.choices[..i].to_vec();
                    p.push(alt);
                    stack.push(p);
                }
            }
            if caps.exceeded() {
                break;
            }
        }
        schedules.fetch_add(local, Ordering::Relaxed);
        // history independence: expand once more after the exploration, base order
        let again = render(&expand(src));
        let _ = shim::take_events();
        if again != b {
            failures.lock().unwrap().push(json!({"k": k, "detail": "second expansion in the same process differs", "expected": crate::xp::trunc(&b, 500), "observed": crate::xp::trunc(&again, 500)}));
        }
    });
    let out = json!({
        "shim_selftest": st,
        "schedules": schedules.load(Ordering::Relaxed),
        "events": events.load(Ordering::Relaxed),
        "order_edges": edges.load(Ordering::Relaxed),
        "event_sizes": sizes.lock().unwrap().iter().map(|(k, v)| (k.to_string(), json!(v))).collect::<serde_json::Map<_, _>>(),
        "baseline": baseline.lock().unwrap().clone(),
        "failures": failures.lock().unwrap().clone(),
        "capped": caps.exceeded(),
    });
    std::fs::write(outp, serde_json::to_string(&out).unwrap()).unwrap();
    0
}
