//! Engine B: compile-and-run batches through the real `#[derive(o2o::o2o)]` proc-macro and rustc.
//!
//! Cases are written one file per case into <= 16 bin crates of a scratch cargo workspace, built offline with
//! `--message-format=json` (every error's span file identifies the case), failing cases are removed and the crate
//! rebuilt, then the binaries run every surviving case under catch_unwind and print one line per failed assertion.

use crate::report::verif_dir;
use serde_json::Value;
use std::collections::{BTreeMap, BTreeSet};
use std::io::Write;
use std::path::{Path, PathBuf};
use std::process::Command;

pub struct BCase {
    pub id: String, // [a-z0-9_]+, unique
    pub module: String,
}

#[derive(Debug, Clone, PartialEq)]
pub enum BStatus {
    Pass { checks: usize },
    /// rustc rejected the case (message of the first error attributed to it; includes "proc-macro derive panicked")
    CompileFail { msg: String },
    RunFail { fails: Vec<(String, String, String)>, checks: usize }, // (label, expected, got)
    Panic { msg: String },
    NotRun,
}

pub struct BOpts {
    pub no_std: bool,
    pub features: &'static str, // "" (default, syn1) | "syn2"
    pub name: String,
    pub keep: bool,
}

fn repo_dir() -> String {
    std::env::var("O2O_REPO").unwrap_or_else(|_| "/repo".into())
}

const COMMON: &str = r#"
#![allow(unused)]
use std::fmt::Debug;
#[derive(Debug, Clone, PartialEq, Default)]
pub struct Er(pub i64);
pub struct Rec { pub case: &'static str, pub checks: usize }
impl Rec {
    pub fn eq<T: Debug + PartialEq>(&mut self, label: &str, got: &T, exp: &T) {
        self.checks += 1;
        if got != exp {
            println!("FAIL\t{}\t{}\t{:?}\t{:?}", self.case, label, exp, got);
        }
    }
    /// differential oracle: two flavours must produce the same (normalised Debug) value
    pub fn same(&mut self, label: &str, a: String, b: String) {
        self.checks += 1;
        if a != b {
            println!("FAIL\t{}\t{}\t{}\t{}", self.case, label, b, a);
        }
    }
    pub fn ok(&mut self, label: &str, cond: bool, what: &str) {
        self.checks += 1;
        if !cond {
            println!("FAIL\t{}\t{}\t{}\t{}", self.case, label, "true", what);
        }
    }
}
/// Debug text with the twin type names normalised (Tf -> T, Sf -> S)
pub fn dbg<T: Debug>(t: &T) -> String { format!("{:?}", t).replace("Tf", "T").replace("Sf", "S") }
/// helper for `?`-raising member expressions: Err(Er(marker)) when v is the trigger value
pub fn chk(v: i32, marker: i64) -> Result<i32, Er> { if v == -777 { Err(Er(marker)) } else { Ok(v + marker as i32) } }
thread_local! { pub static LOG: std::cell::RefCell<Vec<i64>> = std::cell::RefCell::new(Vec::new()); }
pub fn log(m: i64) -> i32 { LOG.with(|l| l.borrow_mut().push(m)); m as i32 }
pub fn logv<T>(m: i64, v: T) -> T { LOG.with(|l| l.borrow_mut().push(m)); v }
pub fn take_log() -> Vec<i64> { LOG.with(|l| std::mem::take(&mut *l.borrow_mut())) }
pub fn run_case(id: &'static str, f: fn(&mut Rec)) {
    let r = std::panic::catch_unwind(|| { let mut r = Rec { case: id, checks: 0 }; f(&mut r); r.checks });
    match r {
        Ok(n) => println!("DONE\t{}\t{}", id, n),
        Err(e) => {
            let msg = if let Some(s) = e.downcast_ref::<&str>() { s.to_string() } else if let Some(s) = e.downcast_ref::<String>() { s.clone() } else { "?".into() };
            println!("PANIC\t{}\t{}", id, msg.replace('\n', " ").replace('\t', " "));
        }
    }
}
"#;

const COMMON_NOSTD: &str = r#"
#![allow(unused)]
use core::fmt::Debug;
#[derive(Debug, Clone, PartialEq, Default)]
pub struct Er(pub i64);
pub struct Rec<'a> { pub case: &'static str, pub checks: usize, pub sink: &'a mut dyn FnMut(&'static str, &str, &dyn Debug, &dyn Debug) }
impl<'a> Rec<'a> {
    pub fn eq<T: Debug + PartialEq>(&mut self, label: &str, got: &T, exp: &T) {
        self.checks += 1;
        if got != exp { (self.sink)(self.case, label, exp, got); }
    }
}
"#;

/// #![no_std] library crate holding the cases + a std driver binary in the same package (README "no_std" dependencies)
fn write_crate_nostd(dir: &Path, name: &str, cases: &[&BCase], _opts: &BOpts) {
    let src = dir.join("src");
    std::fs::create_dir_all(src.join("bin")).unwrap();
    std::fs::write(
        dir.join("Cargo.toml"),
        format!("[package]\nname = \"{}\"\nversion = \"0.0.0\"\nedition = \"2021\"\n\n[dependencies]\no2o-macros = {{ path = \"{}/o2o-macros\" }}\no2o = {{ path = \"{}\", default-features = false }}\n", name, repo_dir(), repo_dir()),
    )
    .unwrap();
    std::fs::write(src.join("common.rs"), COMMON_NOSTD).unwrap();
    let mut lib = String::from("#![no_std]\n#![allow(unused)]\npub mod common;\n");
    for c in cases {
        lib.push_str(&format!("mod case_{};\n", c.id));
        std::fs::write(src.join(format!("case_{}.rs", c.id)), c.module.replace("o2o::o2o", "o2o_macros::o2o")).unwrap();
    }
    lib.push_str("pub const CASES: &[(&str, fn(&mut common::Rec))] = &[\n");
    for c in cases {
        lib.push_str(&format!("    (\"{}\", case_{}::run),\n", c.id, c.id));
    }
    lib.push_str("];\n");
    std::fs::write(src.join("lib.rs"), lib).unwrap();
    let driver = format!(
        "fn main() {{\n    std::panic::set_hook(Box::new(|_| {{}}));\n    for (id, f) in {krate}::CASES {{\n        let r = std::panic::catch_unwind(|| {{ let mut sink = |case: &'static str, label: &str, exp: &dyn std::fmt::Debug, got: &dyn std::fmt::Debug| println!(\"FAIL\\t{{}}\\t{{}}\\t{{:?}}\\t{{:?}}\", case, label, exp, got); let mut r = {krate}::common::Rec {{ case: id, checks: 0, sink: &mut sink }}; f(&mut r); r.checks }});\n        match r {{ Ok(n) => println!(\"DONE\\t{{}}\\t{{}}\", id, n), Err(_) => println!(\"PANIC\\t{{}}\\tpanicked\", id) }}\n    }}\n}}\n",
        krate = name
    );
    std::fs::write(src.join("bin").join(format!("{}_driver.rs", name)), driver).unwrap();
}

fn write_crate(dir: &Path, name: &str, cases: &[&BCase], opts: &BOpts) {
    if opts.no_std {
        return write_crate_nostd(dir, name, cases, opts);
    }
    let src = dir.join("src");
    std::fs::create_dir_all(&src).unwrap();
    let feat = if opts.features.is_empty() { String::new() } else { format!(", default-features = false, features = [\"{}\"]", opts.features) };
    std::fs::write(
        dir.join("Cargo.toml"),
        format!("[package]\nname = \"{}\"\nversion = \"0.0.0\"\nedition = \"2021\"\n\n[dependencies]\no2o = {{ path = \"{}\"{} }}\n", name, repo_dir(), feat),
    )
    .unwrap();
    std::fs::write(src.join("common.rs"), COMMON).unwrap();
    let mut main = String::from("#![allow(unused)]\nmod common;\n");
    for c in cases {
        main.push_str(&format!("mod case_{};\n", c.id));
        std::fs::write(src.join(format!("case_{}.rs", c.id)), &c.module).unwrap();
    }
    main.push_str("fn main() {\n    std::panic::set_hook(Box::new(|_| {}));\n");
    for c in cases {
        main.push_str(&format!("    common::run_case(\"{}\", case_{}::run);\n", c.id, c.id));
    }
    main.push_str("}\n");
    std::fs::write(src.join("main.rs"), main).unwrap();
}

fn case_of_file(f: &str) -> Option<String> {
    let base = f.rsplit('/').next()?;
    let id = base.strip_prefix("case_")?.strip_suffix(".rs")?;
    Some(id.to_string())
}

fn attribute(msg: &Value) -> Option<String> {
    // primary spans first, then any span, then expansion chains
    fn from_span(sp: &Value) -> Option<String> {
        if let Some(f) = sp["file_name"].as_str() {
            if let Some(c) = case_of_file(f) {
                return Some(c);
            }
        }
        if !sp["expansion"].is_null() {
            return from_span(&sp["expansion"]["span"]);
        }
        None
    }
    let spans = msg["spans"].as_array()?;
    for sp in spans.iter().filter(|s| s["is_primary"].as_bool() == Some(true)) {
        if let Some(c) = from_span(sp) {
            return Some(c);
        }
    }
    for sp in spans {
        if let Some(c) = from_span(sp) {
            return Some(c);
        }
    }
    if let Some(ch) = msg["children"].as_array() {
        for c in ch {
            if let Some(x) = attribute(c) {
                return Some(x);
            }
        }
    }
    None
}

/// Build and run all cases; returns the status of every case. Err = machinery failure.
pub fn run_batch(cases: &[BCase], opts: &BOpts) -> Result<BTreeMap<String, BStatus>, String> {
    // rustc's memory grows with the crate: more than ~600 case modules per crate x 16 crates in parallel exhausts the
    // box (thorough C01/C03 were OOM-killed at 11 GB per rustc), so large batches are built in consecutive chunks
    let chunk: usize = std::env::var("VERIF_B_CHUNK").ok().and_then(|s| s.parse().ok()).unwrap_or(10400);
    if cases.len() <= chunk {
        return run_batch_chunk(cases, opts);
    }
    let mut status = BTreeMap::new();
    let n = (cases.len() + chunk - 1) / chunk;
    for (k, part) in cases.chunks(chunk).enumerate() {
        eprintln!("  batch {}: chunk {}/{} ({} cases)", opts.name, k + 1, n, part.len());
        let o = BOpts { no_std: opts.no_std, features: opts.features, name: format!("{}-{}", opts.name, k), keep: opts.keep };
        status.extend(run_batch_chunk(part, &o)?);
    }
    Ok(status)
}

fn run_batch_chunk(cases: &[BCase], opts: &BOpts) -> Result<BTreeMap<String, BStatus>, String> {
    let mut status: BTreeMap<String, BStatus> = cases.iter().map(|c| (c.id.clone(), BStatus::NotRun)).collect();
    if cases.is_empty() {
        return Ok(status);
    }
    let vd = verif_dir();
    let ws: PathBuf = PathBuf::from(format!("{}/work/{}-{}", vd, opts.name, std::process::id()));
    let _ = std::fs::remove_dir_all(&ws);
    std::fs::create_dir_all(&ws).map_err(|e| e.to_string())?;
    let target = format!("{}/target/rt{}", vd, if opts.features.is_empty() { String::new() } else { format!("-{}", opts.features) });
    let ncr = 16.min((cases.len() + 39) / 40).max(1);
    let mut alive: Vec<Vec<&BCase>> = (0..ncr).map(|_| vec![]).collect();
    for (i, c) in cases.iter().enumerate() {
        alive[i % ncr].push(c);
    }
    let members: Vec<String> = (0..ncr).map(|i| format!("{}{:02}", if opts.no_std { "ns" } else { "b" }, i)).collect();
    std::fs::write(
        ws.join("Cargo.toml"),
        format!("[workspace]\nresolver = \"2\"\nmembers = [{}]\n\n[profile.dev]\nopt-level = 0\ndebug = false\nincremental = false\npanic = \"unwind\"\n", members.iter().map(|m| format!("\"{}\"", m)).collect::<Vec<_>>().join(", ")),
    )
    .unwrap();
    let _ = std::fs::copy(format!("{}/Cargo.lock", repo_dir()), ws.join("Cargo.lock"));
    let mut rounds = 0;
    loop {
        rounds += 1;
        if rounds > 6 {
            return Err("batch build did not converge in 6 rounds".into());
        }
        for (i, m) in members.iter().enumerate() {
            let d = ws.join(m);
            let _ = std::fs::remove_dir_all(&d);
            write_crate(&d, m, &alive[i], opts);
        }
        let out = Command::new("cargo")
            .args(["build", "--offline", "--message-format=json", "--keep-going", "-j", "16"])
            .current_dir(&ws)
            .env("CARGO_TARGET_DIR", &target)
            .env("CARGO_NET_OFFLINE", "true")
            .env_remove("RUSTFLAGS")
            .output()
            .map_err(|e| format!("cannot run cargo: {}", e))?;
        let stdout = String::from_utf8_lossy(&out.stdout);
        let mut failed: BTreeMap<String, String> = BTreeMap::new();
        let mut unattributed: Vec<String> = vec![];
        for line in stdout.lines() {
            let v: Value = match serde_json::from_str(line) {
                Ok(v) => v,
                Err(_) => continue,
            };
            if v["reason"] != "compiler-message" {
                continue;
            }
            let m = &v["message"];
            if m["level"] != "error" {
                continue;
            }
            let text = m["message"].as_str().unwrap_or("").to_string();
            if text.starts_with("aborting due to") || text.starts_with("could not compile") {
                continue;
            }
            let code = m["code"]["code"].as_str().unwrap_or("");
            // include the first label/child note: proc-macro panics carry the message in a `help` child
            let mut extra = String::new();
            if let Some(ch) = m["children"].as_array() {
                for c in ch.iter().take(2) {
                    if let Some(t) = c["message"].as_str() {
                        extra.push_str(" | ");
                        extra.push_str(t);
                    }
                }
            }
            match attribute(m) {
                Some(c) => {
                    failed.entry(c).or_insert(format!("{}{}{}", if code.is_empty() { String::new() } else { format!("[{}] ", code) }, text, extra));
                }
                None => {
                    // errors inside dependencies (the tree under /repo does not compile) or in our harness files
                    let pkg = v["package_id"].as_str().unwrap_or("");
                    unattributed.push(format!("{}: {}", pkg, text));
                }
            }
        }
        if !unattributed.is_empty() {
            if !opts.keep {
                let _ = std::fs::remove_dir_all(&ws);
            }
            return Err(format!("unattributable compile error(s): {}", unattributed.iter().take(3).cloned().collect::<Vec<_>>().join(" || ")));
        }
        if failed.is_empty() {
            if !out.status.success() {
                let stderr = String::from_utf8_lossy(&out.stderr);
                if !opts.keep {
                    let _ = std::fs::remove_dir_all(&ws);
                }
                return Err(format!("cargo build failed without attributable errors: {}", crate::xp::trunc(&stderr, 1500)));
            }
            break;
        }
        let failed_ids: BTreeSet<String> = failed.keys().cloned().collect();
        for (id, msg) in failed {
            status.insert(id, BStatus::CompileFail { msg });
        }
        for a in alive.iter_mut() {
            a.retain(|c| !failed_ids.contains(&c.id));
        }
    }
    // run
    let mut done: BTreeMap<String, usize> = BTreeMap::new();
    let mut fails: BTreeMap<String, Vec<(String, String, String)>> = BTreeMap::new();
    let mut panics: BTreeMap<String, String> = BTreeMap::new();
    for (i, m) in members.iter().enumerate() {
        if alive[i].is_empty() {
            continue;
        }
        let bin = if opts.no_std { format!("{}/debug/{}_driver", target, m) } else { format!("{}/debug/{}", target, m) };
        let out = Command::new(&bin).output().map_err(|e| format!("cannot run {}: {}", bin, e))?;
        if !out.status.success() {
            return Err(format!("batch binary {} exited with {:?}: {}", m, out.status.code(), crate::xp::trunc(&String::from_utf8_lossy(&out.stderr), 500)));
        }
        for line in String::from_utf8_lossy(&out.stdout).lines() {
            let p: Vec<&str> = line.split('\t').collect();
            match p.first().copied() {
                Some("DONE") if p.len() >= 3 => {
                    done.insert(p[1].to_string(), p[2].parse().unwrap_or(0));
                }
                Some("FAIL") if p.len() >= 5 => {
                    fails.entry(p[1].to_string()).or_default().push((p[2].to_string(), p[3].to_string(), p[4].to_string()));
                }
                Some("PANIC") if p.len() >= 3 => {
                    panics.insert(p[1].to_string(), p[2].to_string());
                }
                _ => {}
            }
        }
    }
    for a in &alive {
        for c in a {
            let st = if let Some(msg) = panics.get(&c.id) {
                BStatus::Panic { msg: msg.clone() }
            } else if let Some(f) = fails.get(&c.id) {
                BStatus::RunFail { fails: f.clone(), checks: *done.get(&c.id).unwrap_or(&0) }
            } else if let Some(n) = done.get(&c.id) {
                BStatus::Pass { checks: *n }
            } else {
                BStatus::NotRun
            };
            status.insert(c.id.clone(), st);
        }
    }
    if !opts.keep {
        let _ = std::fs::remove_dir_all(&ws);
    }
    let _ = std::io::stderr().flush();
    Ok(status)
}
