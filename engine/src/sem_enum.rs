//! Semantics-first generator of enum cases (C02, C07): variants and payloads designed from their meaning, rendered
//! into o2o instructions, expected destination value of every source variant known by construction.

use crate::explore::Ctx;
use crate::item::{Field, Instr, Item, Shape, Variant};
use std::fmt::Write;

#[derive(Clone, Copy, Debug, PartialEq, Eq)]
pub enum VKind {
    Plain,
    Rename,
    /// S-only variant with an Into action
    GhostAction,
    /// S-only variant without action: Into falls to the `_ =>` default case
    GhostNoAction,
    /// counterpart variant has the other form (unit -> (), tuple -> {}, named -> ())
    HintFlip,
    /// all payload fields are ghosts, counterpart variant is a unit variant
    HintUnit,
    /// counterpart variant has one extra field provided by variant-level #[ghosts]
    VGhosts,
    /// variant-level expressions (README "enum variant inline expressions")
    VExpr,
}

#[derive(Clone, Copy, Debug, PartialEq, Eq)]
pub enum FKind {
    Plain,
    Rename,
    Expr,
    GhostDefault,
}

#[derive(Clone, Debug)]
pub struct VSpec {
    pub name: &'static str,
    pub shape: Shape,
    pub vkind: VKind,
    pub fields: Vec<FKind>,
    pub marker: i64,
    pub fmarkers: Vec<i64>,
    /// tuple counterpart addressed through explicit index renames: designated counterpart position of the j-th
    /// mapped payload field (`#[map(1)]`, `#[map(1, ~ + 5)]`); None = positions follow the declaration order
    pub perm: Option<Vec<usize>>,
}

#[derive(Clone, Debug)]
pub struct ECase {
    pub variants: Vec<VSpec>,
    /// T-only variants mapped by enum-level #[ghosts]: 0 = unit `Y0`, 1 = tuple `Y1(..)`, 2 = struct `Y2 { .. }`
    pub enum_ghosts: Vec<(usize, i64)>,
    pub uncovered: bool, // T-only variant W not mentioned anywhere: From evaluates the default case
    pub owned_only: bool,
    /// enum-level ghosts written as a default DECOY instruction followed by the real ones dedicated to each counterpart
    pub decoy: bool,
    pub tags: Vec<String>,
}

pub struct EOpts {
    pub max_variants: usize,
    pub max_fields: usize,
    pub full_menu: bool,
}

const VNAMES: [&str; 4] = ["A", "B", "C", "D"];
const FNAMES: [&str; 3] = ["x", "y", "w"];
const TFNAMES: [&str; 3] = ["p", "q", "r"];
pub const DEFAULT_FROM: i64 = 777;
pub const DEFAULT_INTO: i64 = 778;

pub fn gen(ctx: &mut Ctx, o: &EOpts) -> Option<ECase> {
    let n = 1 + ctx.choose(o.max_variants);
    let mut marker = 0;
    let mut mk = || {
        marker += 1;
        marker
    };
    let mut variants = vec![];
    let vmenu: &[VKind] = if o.full_menu { &[VKind::Plain, VKind::Rename, VKind::GhostAction, VKind::HintFlip, VKind::VGhosts, VKind::GhostNoAction, VKind::HintUnit, VKind::VExpr] } else { &[VKind::Plain, VKind::Rename, VKind::GhostAction, VKind::HintFlip] };
    let fmenu: &[FKind] = &[FKind::Plain, FKind::Rename, FKind::Expr, FKind::GhostDefault];
    for k in 0..n {
        let shape = [Shape::Unit, Shape::Tuple, Shape::Named][ctx.choose(3)];
        let vkind = vmenu[ctx.choose(vmenu.len())];
        let nf = if shape == Shape::Unit { 0 } else { 1 + ctx.choose(o.max_fields) };
        let mut fields = vec![];
        for _ in 0..nf {
            fields.push(fmenu[ctx.choose(fmenu.len())]);
        }
        // legality
        match vkind {
            VKind::HintUnit => {
                if shape == Shape::Unit || fields.iter().any(|f| *f != FKind::GhostDefault) {
                    return ctx.reject();
                }
            }
            VKind::VGhosts => {
                if shape == Shape::Unit {
                    return ctx.reject();
                }
            }
            VKind::VExpr => {
                if shape != Shape::Tuple || fields != vec![FKind::Plain] {
                    return ctx.reject();
                }
            }
            VKind::GhostAction | VKind::GhostNoAction => {
                if fields.iter().any(|f| *f != FKind::Plain) {
                    return ctx.reject(); // payload instructions of a ghost variant are never used
                }
            }
            _ => {}
        }
        if vkind != VKind::HintUnit && shape != Shape::Unit && fields.iter().all(|f| *f == FKind::GhostDefault) {
            return ctx.reject(); // would need a hint: covered by HintUnit
        }
        // field renames only where the counterpart has names
        let cp_named = match (shape, vkind) {
            (Shape::Named, VKind::HintFlip) => false,
            (Shape::Tuple, VKind::HintFlip) => true,
            (s, _) => s == Shape::Named,
        };
        for f in &fields {
            if *f == FKind::Rename && !cp_named {
                return ctx.reject();
            }
        }
        let fm = fields.iter().map(|_| mk()).collect();
        let cp_tuple = matches!((shape, vkind), (Shape::Tuple, VKind::Plain | VKind::Rename) | (Shape::Named, VKind::HintFlip));
        let nmapped = fields.iter().filter(|f| **f != FKind::GhostDefault).count();
        let perm = if o.full_menu && cp_tuple && nmapped >= 2 && ctx.flag() { Some(ctx.permutation(nmapped)) } else { None };
        variants.push(VSpec { name: VNAMES[k], shape, vkind, fields, marker: mk(), fmarkers: fm, perm });
    }
    let ng = ctx.choose(4); // number of enum-level ghost entries (forms 0..ng)
    let mut enum_ghosts = vec![];
    for g in 0..ng {
        enum_ghosts.push((g % 3, mk()));
    }
    let uncovered = ng > 0 && ctx.flag();
    let owned_only = ctx.flag();
    let mut tags = vec![format!("variants={}", n), format!("enum-ghosts={}", ng), format!("kinds={}", if owned_only { "owned" } else { "all" })];
    if uncovered {
        tags.push("uncovered-variant".into());
    }
    for v in &variants {
        tags.push(format!("v:{:?}/{:?}", v.vkind, v.shape));
        tags.push(format!("has:{:?}", v.vkind));
        for f in &v.fields {
            tags.push(if v.perm.is_some() && *f != FKind::GhostDefault { format!("hasf:Idx{:?}", f) } else { format!("hasf:{:?}", f) });
        }
        if let Some(p) = &v.perm {
            tags.push(if p.iter().enumerate().all(|(i, x)| i == *x) { "perm:identity".into() } else { "perm:crossed".into() });
        }
    }
    let decoy = ng > 0 && ctx.flag();
    if decoy {
        tags.push("ghosts-decoy".into());
    }
    tags.sort();
    tags.dedup();
    Some(ECase { variants, enum_ghosts, uncovered, owned_only, decoy, tags })
}

impl VSpec {
    pub fn tname(&self) -> String {
        match self.vkind {
            VKind::Rename => format!("{}r", self.name),
            VKind::VExpr => format!("{}x", self.name),
            _ => self.name.to_string(),
        }
    }
    /// form of the counterpart variant
    fn tshape(&self) -> Shape {
        match (self.shape, self.vkind) {
            (_, VKind::HintUnit) => Shape::Unit,
            (Shape::Unit, VKind::HintFlip) => Shape::Tuple,
            (Shape::Tuple, VKind::HintFlip) => Shape::Named,
            (Shape::Named, VKind::HintFlip) => Shape::Tuple,
            (s, _) => s,
        }
    }
    pub fn is_ghost(&self) -> bool {
        matches!(self.vkind, VKind::GhostAction | VKind::GhostNoAction)
    }
    /// counterpart field name (or index) of payload field i
    fn tfield(&self, i: usize) -> String {
        let tnamed = self.tshape() == Shape::Named;
        if tnamed {
            if self.fields[i] == FKind::Rename || self.shape != Shape::Named {
                TFNAMES[i].to_string()
            } else {
                FNAMES[i].to_string()
            }
        } else {
            let j = self.mapped().iter().position(|x| *x == i).unwrap();
            self.perm.as_ref().map_or(j, |p| p[j]).to_string()
        }
    }
    pub fn mapped(&self) -> Vec<usize> {
        (0..self.fields.len()).filter(|i| self.fields[*i] != FKind::GhostDefault).collect()
    }
}

impl ECase {
    pub fn nontrivial(&self) -> bool {
        self.variants.iter().any(|v| v.vkind != VKind::Plain || v.fields.iter().any(|f| *f != FKind::Plain)) || !self.enum_ghosts.is_empty()
    }

    pub fn item(&self, name: &str, fallible: Option<bool>) -> Item {
        let mut vs = vec![];
        for v in &self.variants {
            let mut var = Variant { attrs: vec![], name: v.name.into(), shape: v.shape, fields: vec![] };
            match v.vkind {
                VKind::Plain | VKind::VGhosts | VKind::HintUnit | VKind::HintFlip => {}
                VKind::Rename => var.attrs.push(Instr::new("map", None, &v.tname())),
                VKind::GhostAction => var.attrs.push(Instr::new("ghost", None, &format!("{{ DST::Z({}) }}", v.marker))),
                VKind::GhostNoAction => var.attrs.push(Instr::word("ghost")),
                VKind::VExpr => {
                    var.attrs.push(Instr::new("from_owned", None, &format!("{}, {{ {}::{}(f0 + {}) }}", v.tname(), name, v.name, v.marker)));
                    var.attrs.push(Instr::new("owned_into", None, &format!("{{ DST::{}(f0 + {}) }}", v.tname(), v.marker)));
                    if !self.owned_only {
                        var.attrs.push(Instr::new("from_ref", None, &format!("{}, {{ {}::{}(*f0 + {}) }}", v.tname(), name, v.name, v.marker)));
                        var.attrs.push(Instr::new("ref_into", None, &format!("{{ DST::{}(*f0 + {}) }}", v.tname(), v.marker)));
                    }
                }
            }
            match (v.vkind, v.shape) {
                (VKind::HintFlip, Shape::Unit) => var.attrs.push(Instr::new("type_hint", None, "as ()")),
                (VKind::HintFlip, Shape::Tuple) => var.attrs.push(Instr::new("type_hint", None, "as {}")),
                (VKind::HintFlip, Shape::Named) => var.attrs.push(Instr::new("type_hint", None, "as ()")),
                (VKind::HintUnit, _) => var.attrs.push(Instr::new("type_hint", None, "as Unit")),
                _ => {}
            }
            if v.vkind == VKind::VGhosts {
                let g = if v.tshape() == Shape::Named { "g".to_string() } else { v.mapped().len().to_string() };
                var.attrs.push(Instr::new("ghosts", None, &format!("{}: {{ {} }}", g, v.marker)));
            }
            for (i, fk) in v.fields.iter().enumerate() {
                let mut f = if v.shape == Shape::Named { Field::named(FNAMES[i], "i32") } else { Field::pos("i32") };
                let needs_name = v.tshape() == Shape::Named && (v.shape != Shape::Named || *fk == FKind::Rename) || v.perm.is_some() && *fk != FKind::GhostDefault;
                let nm = if needs_name { format!("{}, ", v.tfield(i)) } else { String::new() };
                let m = v.fmarkers[i];
                if v.vkind != VKind::VExpr && !v.is_ghost() {
                    match fk {
                        FKind::Plain | FKind::Rename => {
                            if needs_name {
                                f.attrs.push(Instr::new("map_owned", None, &v.tfield(i)));
                            }
                            if !self.owned_only {
                                f.attrs.push(Instr::new("map_ref", None, &format!("{}*~", nm)));
                            }
                        }
                        FKind::Expr => {
                            f.attrs.push(Instr::new("map_owned", None, &format!("{}~ + {}", nm, m)));
                            if !self.owned_only {
                                f.attrs.push(Instr::new("map_ref", None, &format!("{}*~ + {}", nm, m)));
                            }
                        }
                        FKind::GhostDefault => f.attrs.push(Instr::new("ghost", None, &format!("{{ {} }}", m))),
                    }
                }
                var.fields.push(f);
            }
            vs.push(var);
        }
        // the sink variant every case has
        vs.push(Variant { attrs: vec![], name: "Z".into(), shape: Shape::Tuple, fields: vec![if self.owned_only { Field::pos("i32") } else { Field::pos("i32").with(Instr::new("map_ref", None, "*~")) }] });
        let mut it = Item::new_enum(name, vs);
        let kinds: &[(&str, &str)] = if self.owned_only { &[("from_owned", "owned_into")] } else { &[("from", "into")] };
        let push = |it: &mut Item, fallible: bool| {
            let cp = if fallible { "Tf" } else { "T" };
            for (fr, into) in kinds {
                let (fr, into) = if fallible { (format!("try_{}", fr), if *into == "into" { "try_into".to_string() } else { "owned_try_into".to_string() }) } else { (fr.to_string(), into.to_string()) };
                let err = if fallible { ", Er" } else { "" };
                it.attrs.push(Instr::new(&fr, None, &format!("{}{}| _ => {}::Z({})", cp, err, name, DEFAULT_FROM)));
                it.attrs.push(Instr::new(&into, None, &format!("{}{}| _ => {}::Z({})", cp, err, cp, DEFAULT_INTO)));
            }
        };
        match fallible {
            Some(f) => push(&mut it, f),
            None => {
                push(&mut it, false);
                push(&mut it, true);
            }
        }
        if !self.enum_ghosts.is_empty() {
            let entries: Vec<String> = self
                .enum_ghosts
                .iter()
                .map(|(form, m)| match form {
                    0 => format!("Y0: {{ {}::Z({}) }}", name, m),
                    1 => format!("Y1(..): {{ {}::Z({}) }}", name, m),
                    _ => format!("Y2 {{ .. }}: {{ {}::Z({}) }}", name, m),
                })
                .collect();
            if self.decoy {
                let decoys: Vec<String> = self
                    .enum_ghosts
                    .iter()
                    .map(|(form, m)| match form {
                        0 => format!("Y0: {{ {}::Z({}) }}", name, 9900 + m),
                        1 => format!("Y1(..): {{ {}::Z({}) }}", name, 9900 + m),
                        _ => format!("Y2 {{ .. }}: {{ {}::Z({}) }}", name, 9900 + m),
                    })
                    .collect();
                it.attrs.push(Instr::new("ghosts", None, &decoys.join(", ")));
                let cps: Vec<&str> = match fallible {
                    Some(false) => vec!["T"],
                    Some(true) => vec!["Tf"],
                    None => vec!["T", "Tf"],
                };
                for cp in cps {
                    it.attrs.push(Instr::new("ghosts", Some(cp), &entries.join(", ")));
                }
            } else {
                it.attrs.push(Instr::new("ghosts", None, &entries.join(", ")));
            }
        }
        // `DST` in variant-level actions stands for the counterpart of the impl being generated: with two counterparts
        // (T and the twin Tf) the actions are written once per counterpart as dedicated instructions
        let mut it2 = it.clone();
        if let crate::item::Body::Enum { variants } = &mut it2.body {
            for var in variants.iter_mut() {
                let mut na = vec![];
                for a in &var.attrs {
                    if a.body.contains("DST") {
                        let cps: Vec<&str> = match fallible {
                            Some(false) => vec!["T"],
                            Some(true) => vec!["Tf"],
                            None => vec!["T", "Tf"],
                        };
                        for cp in cps {
                            let mut x = a.clone();
                            x.ded = Some(cp.to_string());
                            x.body = a.body.replace("DST", cp);
                            na.push(x);
                        }
                    } else {
                        na.push(a.clone());
                    }
                }
                var.attrs = na;
            }
        }
        it2
    }

    pub fn cp_def(&self, name: &str) -> String {
        let mut o = format!("#[derive(Clone, Debug, PartialEq)] pub enum {} {{ ", name);
        for v in self.variants.iter().filter(|v| !v.is_ghost()) {
            let mut fields: Vec<(String, &str)> = v.mapped().iter().map(|i| (v.tfield(*i), "i32")).collect();
            if v.vkind == VKind::VGhosts {
                fields.push((if v.tshape() == Shape::Named { "g".into() } else { fields.len().to_string() }, "i32"));
            }
            match v.tshape() {
                Shape::Unit => {
                    let _ = write!(o, "{}, ", v.tname());
                }
                Shape::Tuple => {
                    let _ = write!(o, "{}({}), ", v.tname(), fields.iter().map(|f| f.1).collect::<Vec<_>>().join(", "));
                }
                Shape::Named => {
                    let _ = write!(o, "{} {{ {} }}, ", v.tname(), fields.iter().map(|f| format!("{}: {}", f.0, f.1)).collect::<Vec<_>>().join(", "));
                }
            }
        }
        for (form, _) in &self.enum_ghosts {
            o.push_str(match form {
                0 => "Y0, ",
                1 => "Y1(i32), ",
                _ => "Y2 { u: i32 }, ",
            });
        }
        if self.uncovered {
            o.push_str("W, ");
        }
        o.push_str("Z(i32) }\n");
        o
    }

    pub fn s_value(&self, name: &str, v: &VSpec, vals: &[i64]) -> String {
        match v.shape {
            Shape::Unit => format!("{}::{}", name, v.name),
            Shape::Tuple => format!("{}::{}({})", name, v.name, vals.iter().map(|x| x.to_string()).collect::<Vec<_>>().join(", ")),
            Shape::Named => format!("{}::{} {{ {} }}", name, v.name, vals.iter().enumerate().map(|(i, x)| format!("{}: {}", FNAMES[i], x)).collect::<Vec<_>>().join(", ")),
        }
    }
    pub fn t_value(&self, tn: &str, v: &VSpec, mapped_vals: &[i64], ghost_val: Option<i64>) -> String {
        let mut fields: Vec<(String, i64)> = v.mapped().iter().enumerate().map(|(j, i)| (v.tfield(*i), mapped_vals[j])).collect();
        if v.vkind == VKind::VGhosts {
            fields.push((if v.tshape() == Shape::Named { "g".into() } else { fields.len().to_string() }, ghost_val.unwrap_or(0)));
        }
        if v.tshape() == Shape::Tuple {
            fields.sort_by_key(|f| f.0.parse::<usize>().unwrap_or(usize::MAX));
        }
        match v.tshape() {
            Shape::Unit => format!("{}::{}", tn, v.tname()),
            Shape::Tuple => format!("{}::{}({})", tn, v.tname(), fields.iter().map(|f| f.1.to_string()).collect::<Vec<_>>().join(", ")),
            Shape::Named => format!("{}::{} {{ {} }}", tn, v.tname(), fields.iter().map(|f| format!("{}: {}", f.0, f.1)).collect::<Vec<_>>().join(", ")),
        }
    }

    /// one self-contained test module
    pub fn render_module(&self) -> String {
        let mut o = String::new();
        let _ = writeln!(o, "#![allow(unused, non_camel_case_types, clippy::all)]\nuse crate::common::*;");
        o.push_str(&self.cp_def("T"));
        o.push_str(&self.cp_def("Tf"));
        let _ = writeln!(o, "#[derive(Clone, Debug, PartialEq, o2o::o2o)]\n{}", self.item("S", None).render());
        let _ = writeln!(o, "pub fn run(r: &mut Rec) {{");
        for fallible in [false, true] {
            let tn = if fallible { "Tf" } else { "T" };
            let f = if fallible { "try_" } else { "" };
            let wrap = |e: String| if fallible { format!("Ok::<_, Er>({})", e) } else { e };
            let from = |tv: &str, label: &str, exp: String, o: &mut String| {
                if fallible {
                    let _ = writeln!(o, "  {{ let t = {tv}; r.eq(\"{f}from_owned/{label}\", &<S as TryFrom<{tn}>>::try_from(t.clone()), &{e}); {r} }}", e = wrap(exp.clone()), r = if self.owned_only { String::new() } else { format!("r.eq(\"{f}from_ref/{label}\", &<S as TryFrom<&{tn}>>::try_from(&t), &{});", wrap(exp.clone())) });
                } else {
                    let _ = writeln!(o, "  {{ let t = {tv}; r.eq(\"from_owned/{label}\", &<S as From<{tn}>>::from(t.clone()), &{e}); {r} }}", e = exp, r = if self.owned_only { String::new() } else { format!("r.eq(\"from_ref/{label}\", &<S as From<&{tn}>>::from(&t), &{});", exp) });
                }
            };
            let into = |sv: &str, label: &str, exp: String, o: &mut String| {
                if fallible {
                    let _ = writeln!(o, "  {{ let s = {sv}; r.eq(\"{f}owned_into/{label}\", &<S as TryInto<{tn}>>::try_into(s.clone()), &{e}); {r} }}", e = wrap(exp.clone()), r = if self.owned_only { String::new() } else { format!("r.eq(\"{f}ref_into/{label}\", &<&S as TryInto<{tn}>>::try_into(&s), &{});", wrap(exp.clone())) });
                } else {
                    let _ = writeln!(o, "  {{ let s = {sv}; r.eq(\"owned_into/{label}\", &<S as Into<{tn}>>::into(s.clone()), &{e}); {r} }}", e = exp, r = if self.owned_only { String::new() } else { format!("r.eq(\"ref_into/{label}\", &<&S as Into<{tn}>>::into(&s), &{});", exp) });
                }
            };
            for (vi, v) in self.variants.iter().enumerate() {
                for assign in 0..2i64 {
                    let svals: Vec<i64> = (0..v.fields.len()).map(|i| 1000 * (vi as i64 + 1) + 100 * (i as i64 + 1) + assign * 17).collect();
                    let label = format!("{}/{}", v.name, assign);
                    // Into
                    let sv = self.s_value("S", v, &svals);
                    let exp_into = match v.vkind {
                        VKind::GhostAction => format!("{}::Z({})", tn, v.marker),
                        VKind::GhostNoAction => format!("{}::Z({})", tn, DEFAULT_INTO),
                        VKind::VExpr => format!("{}::{}({})", tn, v.tname(), svals[0] + v.marker),
                        _ => {
                            let mv: Vec<i64> = v.mapped().iter().map(|i| svals[*i] + if v.fields[*i] == FKind::Expr { v.fmarkers[*i] } else { 0 }).collect();
                            self.t_value(tn, v, &mv, Some(v.marker))
                        }
                    };
                    into(&sv, &label, exp_into, &mut o);
                    // From
                    if !v.is_ghost() {
                        let tvals: Vec<i64> = v.mapped().iter().map(|i| 5000 * (vi as i64 + 1) + 100 * (*i as i64 + 1) + assign * 13).collect();
                        let tv = if v.vkind == VKind::VExpr { format!("{}::{}({})", tn, v.tname(), tvals[0]) } else { self.t_value(tn, v, &tvals, Some(4242)) };
                        let exp_s: Vec<i64> = (0..v.fields.len())
                            .map(|i| match v.fields[i] {
                                FKind::GhostDefault => v.fmarkers[i],
                                fk => {
                                    let j = v.mapped().iter().position(|x| *x == i).unwrap();
                                    tvals[j] + if fk == FKind::Expr { v.fmarkers[i] } else { 0 } + if v.vkind == VKind::VExpr { v.marker } else { 0 }
                                }
                            })
                            .collect();
                        from(&tv, &label, self.s_value("S", v, &exp_s), &mut o);
                    }
                }
            }
            // sink variant both ways
            into("S::Z(31)", "Z", format!("{}::Z(31)", tn), &mut o);
            from(&format!("{}::Z(32)", tn), "Z", "S::Z(32)".into(), &mut o);
            for (form, m) in &self.enum_ghosts {
                let tv = match form {
                    0 => format!("{}::Y0", tn),
                    1 => format!("{}::Y1(5)", tn),
                    _ => format!("{}::Y2 {{ u: 6 }}", tn),
                };
                from(&tv, &format!("Y{}", form), format!("S::Z({})", m), &mut o);
            }
            if self.uncovered {
                from(&format!("{}::W", tn), "W", format!("S::Z({})", DEFAULT_FROM), &mut o);
            }
        }
        o.push_str("}\n");
        o
    }
}
