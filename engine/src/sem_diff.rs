//! C07: differential test modules - no expected constants, the flavours of one mapping are compared with each other.

use crate::sem_enum::{ECase, VKind};
use crate::sem_flat::{ChildCase, FMem};
use crate::sem_struct::{CpForm, Flavour, SCase, SlotSrc};
use std::fmt::Write;

const HEAD: &str = "#![allow(unused, non_camel_case_types, clippy::all)]\nuse crate::common::*;\nuse o2o::traits::*;\n";

/// assertions shared by all mappings: by-ref == owned, Try == Ok(infallible); `tl`/`tfl`: counterpart literals,
/// `sl`/`sfl`: deriving-type literals (for the infallible / fallible deriving type)
fn flavour_block(o: &mut String, a: &str, sn: &str, sfn: &str, tty: &str, tfty: &str, tl: &str, tfl: &str, sl: &str, sfl: &str, refs: bool) {
    flavour_block2(o, a, sn, sfn, tty, tfty, tl, tfl, sl, sfl, refs, true)
}

/// `same_instrs`: the fallible and infallible flavours are governed by the same instructions (else only the
/// comparisons inside one fallibility class are made)
fn flavour_block2(o: &mut String, a: &str, sn: &str, sfn: &str, tty: &str, tfty: &str, tl: &str, tfl: &str, sl: &str, sfl: &str, refs: bool, same_instrs: bool) {
    if !same_instrs {
        let _ = writeln!(o, "  {{ let t: {tty} = {tl}; let tf: {tfty} = {tfl};");
        let _ = writeln!(o, "    r.same(\"from_ref==from_owned/{a}\", dbg(&<{sn} as From<&{tty}>>::from(&t)), dbg(&<{sn} as From<{tty}>>::from(t.clone())));");
        let _ = writeln!(o, "    r.same(\"try_from_ref==try_from_owned/{a}\", dbg(&<{sfn} as TryFrom<&{tfty}>>::try_from(&tf)), dbg(&<{sfn} as TryFrom<{tfty}>>::try_from(tf.clone()))); }}");
        let _ = writeln!(o, "  {{ let s: {sn} = {sl}; let sf: {sfn} = {sfl};");
        let _ = writeln!(o, "    r.same(\"ref_into==owned_into/{a}\", dbg(&<&{sn} as Into<{tty}>>::into(&s)), dbg(&<{sn} as Into<{tty}>>::into(s.clone())));");
        let _ = writeln!(o, "    r.same(\"try_ref_into==try_owned_into/{a}\", dbg(&<&{sfn} as TryInto<{tfty}>>::try_into(&sf)), dbg(&<{sfn} as TryInto<{tfty}>>::try_into(sf.clone()))); }}");
        return;
    }
    let _ = writeln!(o, "  {{ let t: {tty} = {tl}; let tf: {tfty} = {tfl};");
    let _ = writeln!(o, "    let fo = dbg(&<{sn} as From<{tty}>>::from(t.clone()));");
    if refs {
        let _ = writeln!(o, "    r.same(\"from_ref==from_owned/{a}\", dbg(&<{sn} as From<&{tty}>>::from(&t)), fo.clone());");
        let _ = writeln!(o, "    r.same(\"try_from_ref==Ok(from_owned)/{a}\", dbg(&<{sfn} as TryFrom<&{tfty}>>::try_from(&tf)), format!(\"Ok({{}})\", fo));");
    }
    let _ = writeln!(o, "    r.same(\"try_from_owned==Ok(from_owned)/{a}\", dbg(&<{sfn} as TryFrom<{tfty}>>::try_from(tf.clone())), format!(\"Ok({{}})\", fo)); }}");
    let _ = writeln!(o, "  {{ let s: {sn} = {sl}; let sf: {sfn} = {sfl};");
    let _ = writeln!(o, "    let io = dbg(&<{sn} as Into<{tty}>>::into(s.clone()));");
    if refs {
        let _ = writeln!(o, "    r.same(\"ref_into==owned_into/{a}\", dbg(&<&{sn} as Into<{tty}>>::into(&s)), io.clone());");
        let _ = writeln!(o, "    r.same(\"try_ref_into==Ok(owned_into)/{a}\", dbg(&<&{sfn} as TryInto<{tfty}>>::try_into(&sf)), format!(\"Ok({{}})\", io));");
    }
    let _ = writeln!(o, "    r.same(\"try_owned_into==Ok(owned_into)/{a}\", dbg(&<{sfn} as TryInto<{tfty}>>::try_into(sf.clone())), format!(\"Ok({{}})\", io)); }}");
}

pub fn struct_module(c: &SCase) -> String {
    let mut o = String::from(HEAD);
    let bare = c.form == CpForm::BareTuple;
    o.push_str(&c.cp_def("T"));
    if !bare {
        o.push_str(&c.cp_def("Tf"));
    }
    let nslots = c.slots.len();
    let n = c.members.len();
    if c.update {
        let tb: Vec<i64> = (0..nslots).map(|j| SCase::TBASE + j as i64).collect();
        let sb: Vec<i64> = (0..n).map(|k| SCase::SBASE + k as i64).collect();
        let _ = writeln!(o, "fn tbase() -> T {{ {} }}\nfn tfbase() -> Tf {{ {} }}\nfn sbase() -> S {{ {} }}", c.cp_literal("T", &tb), c.cp_literal("Tf", &tb), c.s_literal("S", &sb));
    }
    let derives = "#[derive(Clone, Debug, PartialEq, Default, o2o::o2o)]";
    let (sn, sfn) = if bare { ("S", "Sf") } else { ("S", "S") };
    if bare {
        let _ = writeln!(o, "{}\n{}", derives, c.item("S", Flavour::Infallible).render());
        let mut sf = c.item("S", Flavour::Fallible);
        sf.name = "Sf".into();
        let _ = writeln!(o, "{}\n{}", derives, sf.render());
    } else {
        let _ = writeln!(o, "{}\n{}", derives, c.item("S", Flavour::Both).render());
    }
    let (tty, tfty) = if bare { (c.cp_type(false), c.cp_type(false)) } else { ("T".to_string(), "Tf".to_string()) };
    let _ = writeln!(o, "pub fn run(r: &mut Rec) {{");
    for assign in 0..2 {
        let tv: Vec<i64> = (0..nslots).map(|j| c.tval(j, assign)).collect();
        let sv: Vec<i64> = (0..n).map(|k| c.sval(k, assign)).collect();
        let pre: Vec<i64> = (0..nslots).map(|j| SCase::PRE + j as i64).collect();
        let a = assign.to_string();
        let same_instrs = !c.members.iter().any(|m| m.mi == crate::sem_struct::MI::FalliblePair);
        flavour_block2(&mut o, &a, sn, sfn, &tty, &tfty, &c.cp_literal("T", &tv), &c.cp_literal(if bare { "T" } else { "Tf" }, &tv), &c.s_literal(sn, &sv), &c.s_literal(sfn, &sv), true, same_instrs);
        // into_existing: mapped leaves equal what `into` produced, unmapped leaves keep their pre-values
        if nslots > 0 && c.form != CpForm::AsUnit {
            for (label, sexpr, owned, fallible) in [("owned_into_existing", "s.clone()", true, false), ("ref_into_existing", "&s", false, false), ("try_owned_into_existing", "sf.clone()", true, true), ("try_ref_into_existing", "&sf", false, true)] {
                let (snn, tt) = if fallible { (sfn, &tfty) } else { (sn, &tty) };
                let self_ty = if owned { snn.to_string() } else { format!("&{}", snn) };
                let tr = if fallible { format!("<{} as TryIntoExisting<{}>>::try_into_existing({}, &mut o).unwrap()", self_ty, tt, sexpr) } else { format!("<{} as IntoExisting<{}>>::into_existing({}, &mut o)", self_ty, tt, sexpr) };
                let into = if fallible { format!("<{} as TryInto<{}>>::try_into({}).unwrap()", self_ty, tt, sexpr) } else { format!("<{} as Into<{}>>::into({})", self_ty, tt, sexpr) };
                let prelit = c.cp_literal(if fallible && !bare { "Tf" } else { "T" }, &pre);
                let _ = writeln!(o, "  {{ let s: {sn} = {}; let sf: {sfn} = {}; let exp: {tt} = {into}; let mut o: {tt} = {prelit}; {tr};", c.s_literal(sn, &sv), c.s_literal(sfn, &sv));
                for (j, s) in c.slots.iter().enumerate() {
                    let acc = &s.name;
                    match s.src {
                        SlotSrc::Extra => {
                            let _ = writeln!(o, "    r.same(\"{label}: unmapped leaf {acc} untouched/{a}\", dbg(&o.{acc}), dbg(&{}));", pre[j]);
                        }
                        _ => {
                            let _ = writeln!(o, "    r.same(\"{label}: leaf {acc} == into/{a}\", dbg(&o.{acc}), dbg(&exp.{acc}));");
                        }
                    }
                }
                let _ = writeln!(o, "  }}");
            }
        }
    }
    o.push_str("}\n");
    o
}

pub fn enum_module(c: &ECase) -> String {
    let mut o = String::from(HEAD);
    o.push_str(&c.cp_def("T"));
    o.push_str(&c.cp_def("Tf"));
    let _ = writeln!(o, "#[derive(Clone, Debug, PartialEq, o2o::o2o)]\n{}", c.item("S", None).render());
    let _ = writeln!(o, "pub fn run(r: &mut Rec) {{");
    let refs = !c.owned_only;
    let mut pairs: Vec<(String, String, String)> = vec![]; // (label, T value template with TT, S value or "")
    for (vi, v) in c.variants.iter().enumerate() {
        for assign in 0..2i64 {
            let svals: Vec<i64> = (0..v.fields.len()).map(|i| 1000 * (vi as i64 + 1) + 100 * (i as i64 + 1) + assign * 17).collect();
            let sv = c.s_value("S", v, &svals);
            let tv = if v.is_ghost() {
                String::new()
            } else {
                let tvals: Vec<i64> = v.mapped().iter().map(|i| 5000 * (vi as i64 + 1) + 100 * (*i as i64 + 1) + assign * 13).collect();
                if v.vkind == VKind::VExpr { format!("TT::{}({})", v.tname(), tvals[0]) } else { c.t_value("TT", v, &tvals, Some(4242)) }
            };
            pairs.push((format!("{}/{}", v.name, assign), tv, sv));
        }
    }
    pairs.push(("Z".into(), "TT::Z(32)".into(), "S::Z(31)".into()));
    for (form, _) in &c.enum_ghosts {
        pairs.push((format!("Y{}", form), match form { 0 => "TT::Y0".to_string(), 1 => "TT::Y1(5)".to_string(), _ => "TT::Y2 { u: 6 }".to_string() }, String::new()));
    }
    if c.uncovered {
        pairs.push(("W".into(), "TT::W".into(), String::new()));
    }
    for (label, tv, sv) in pairs {
        if !tv.is_empty() {
            let (tl, tfl) = (tv.replace("TT", "T"), tv.replace("TT", "Tf"));
            let _ = writeln!(o, "  {{ let t = {tl}; let tf = {tfl}; let fo = dbg(&<S as From<T>>::from(t.clone()));");
            if refs {
                let _ = writeln!(o, "    r.same(\"from_ref==from_owned/{label}\", dbg(&<S as From<&T>>::from(&t)), fo.clone());");
                let _ = writeln!(o, "    r.same(\"try_from_ref==Ok(from_owned)/{label}\", dbg(&<S as TryFrom<&Tf>>::try_from(&tf)), format!(\"Ok({{}})\", fo));");
            }
            let _ = writeln!(o, "    r.same(\"try_from_owned==Ok(from_owned)/{label}\", dbg(&<S as TryFrom<Tf>>::try_from(tf.clone())), format!(\"Ok({{}})\", fo)); }}");
        }
        if !sv.is_empty() {
            let _ = writeln!(o, "  {{ let s = {sv}; let io = dbg(&<S as Into<T>>::into(s.clone()));");
            if refs {
                let _ = writeln!(o, "    r.same(\"ref_into==owned_into/{label}\", dbg(&<&S as Into<T>>::into(&s)), io.clone());");
                let _ = writeln!(o, "    r.same(\"try_ref_into==Ok(owned_into)/{label}\", dbg(&<&S as TryInto<Tf>>::try_into(&s)), format!(\"Ok({{}})\", io));");
            }
            let _ = writeln!(o, "    r.same(\"try_owned_into==Ok(owned_into)/{label}\", dbg(&<S as TryInto<Tf>>::try_into(s.clone())), format!(\"Ok({{}})\", io)); }}");
        }
    }
    o.push_str("}\n");
    o
}

pub fn flat_module(c: &ChildCase) -> String {
    let mut o = String::from(HEAD);
    o.push_str(&c.defs());
    let _ = writeln!(o, "#[derive(Clone, Debug, PartialEq, Default, o2o::o2o)]\n{}", c.item("S", true).render());
    let _ = writeln!(o, "pub fn run(r: &mut Rec) {{");
    for assign in 0..2i64 {
        let tv = move |m: &FMem| 1000 * (m.orig as i64 + 1) + assign * 37;
        let sv = move |m: &FMem| 100_000 + 1000 * (m.orig as i64 + 1) + assign * 41;
        let s_lit = c.s_literal(&sv);
        let a = assign.to_string();
        flavour_block(&mut o, &a, "S", "S", "T", "Tf", &c.node_literal("", "T", &tv, &|_| 4242), &c.node_literal("", "Tf", &tv, &|_| 4242), &s_lit, &s_lit, true);
        // every leaf of the nested counterpart is mapped: into_existing must make the existing value equal to `into`
        for (tn, fallible) in [("T", false), ("Tf", true)] {
            let pre = c.node_literal("", tn, &|m: &FMem| 900_000 + m.orig as i64, &|g| 900_100 + g.2);
            for (owned, sexpr) in [(true, "s.clone()"), (false, "&s")] {
                let self_ty = if owned { "S" } else { "&S" };
                let label = format!("{}{}_into_existing==into/{}", if fallible { "try_" } else { "" }, if owned { "owned" } else { "ref" }, a);
                if fallible {
                    let _ = writeln!(o, "  {{ let s = {s_lit}; let exp: {tn} = <{self_ty} as TryInto<{tn}>>::try_into({sexpr}).unwrap(); let mut o = {pre}; <{self_ty} as TryIntoExisting<{tn}>>::try_into_existing({sexpr}, &mut o).unwrap(); r.same(\"{label}\", dbg(&o), dbg(&exp)); }}");
                } else {
                    let _ = writeln!(o, "  {{ let s = {s_lit}; let exp: {tn} = <{self_ty} as Into<{tn}>>::into({sexpr}); let mut o = {pre}; <{self_ty} as IntoExisting<{tn}>>::into_existing({sexpr}, &mut o); r.same(\"{label}\", dbg(&o), dbg(&exp)); }}");
                }
            }
        }
    }
    o.push_str("}\n");
    o
}

/// `?`-raising member expressions: the fallible flavours return the error of the first member whose expression
/// raises instead of a value; with no trigger they return Ok of what the expression computes
pub fn raise_module(n: usize, raising: &[bool], named: bool) -> (String, String) {
    let mut o = String::from(HEAD);
    let d = "#[derive(Clone, Debug, PartialEq, Default)]";
    let names = ["a", "b", "c"];
    let fld = |k: usize| if named { names[k].to_string() } else { k.to_string() };
    let tdef = |t: &str| if named { format!("{d} pub struct {t} {{ {} }}\n", (0..n).map(|k| format!("pub {}: i32", names[k])).collect::<Vec<_>>().join(", ")) } else { format!("{d} pub struct {t}({});\n", (0..n).map(|_| "pub i32").collect::<Vec<_>>().join(", ")) };
    o.push_str(&tdef("Tf"));
    let mut item = String::from("#[try_map(Tf, Er)]\n#[try_into_existing(Tf, Er)]\n");
    let members: Vec<String> = (0..n)
        .map(|k| {
            let attr = if raising[k] { format!("#[try_map(chk(~, {})?)] ", 10 * (k + 1)) } else { String::new() };
            if named { format!("    {}{}: i32,\n", attr, names[k]) } else { format!("    {}i32,\n", attr) }
        })
        .collect();
    if named {
        item.push_str(&format!("struct S {{\n{}}}\n", members.join("")));
    } else {
        item.push_str(&format!("struct S(\n{});\n", members.join("")));
    }
    let _ = writeln!(o, "{d}\n#[derive(o2o::o2o)]\n{}", item);
    let lit = |t: &str, vals: &[i64]| if named { format!("{t} {{ {} }}", (0..n).map(|k| format!("{}: {}", names[k], vals[k])).collect::<Vec<_>>().join(", ")) } else { format!("{t}({})", vals.iter().map(|v| v.to_string()).collect::<Vec<_>>().join(", ")) };
    let _ = writeln!(o, "pub fn run(r: &mut Rec) {{");
    // every subset of triggered members
    for mask in 0..(1u32 << n) {
        let vals: Vec<i64> = (0..n).map(|k| if mask & (1 << k) != 0 { -777 } else { 100 * (k as i64 + 1) }).collect();
        let first_raise = (0..n).find(|k| raising[*k] && mask & (1 << k) != 0);
        let okvals: Vec<i64> = (0..n).map(|k| vals[k] + if raising[k] { 10 * (k as i64 + 1) } else { 0 }).collect();
        let exp_s = match first_raise { Some(k) => format!("Err(Er({}))", 10 * (k + 1)), None => format!("Ok({})", lit("S", &okvals)) };
        let exp_t = match first_raise { Some(k) => format!("Err(Er({}))", 10 * (k + 1)), None => format!("Ok({})", lit("Tf", &okvals)) };
        let _ = writeln!(o, "  {{ let t = {}; r.same(\"try_from_owned/m{mask}\", dbg(&<S as TryFrom<Tf>>::try_from(t.clone())), \"{}\".replace(\"Tf\", \"T\")); r.same(\"try_from_ref/m{mask}\", dbg(&<S as TryFrom<&Tf>>::try_from(&t)), \"{}\".replace(\"Tf\", \"T\")); }}", lit("Tf", &vals), exp_s, exp_s);
        let _ = writeln!(o, "  {{ let s = {}; r.same(\"try_owned_into/m{mask}\", dbg(&<S as TryInto<Tf>>::try_into(s.clone())), \"{}\".replace(\"Tf\", \"T\")); r.same(\"try_ref_into/m{mask}\", dbg(&<&S as TryInto<Tf>>::try_into(&s)), \"{}\".replace(\"Tf\", \"T\"));", lit("S", &vals), exp_t, exp_t);
        let pre: Vec<i64> = (0..n).map(|k| 900 + k as i64).collect();
        let exp_e = match first_raise { Some(k) => format!("Err(Er({}))", 10 * (k + 1)), None => "Ok(())".to_string() };
        let _ = writeln!(o, "    let mut o1 = {}; r.same(\"try_owned_into_existing/m{mask}\", dbg(&<S as TryIntoExisting<Tf>>::try_into_existing(s.clone(), &mut o1)), \"{}\".to_string()); let mut o2 = {}; r.same(\"try_ref_into_existing/m{mask}\", dbg(&<&S as TryIntoExisting<Tf>>::try_into_existing(&s, &mut o2)), \"{}\".to_string());", lit("Tf", &pre), exp_e, lit("Tf", &pre), exp_e);
        if first_raise.is_none() {
            let _ = writeln!(o, "    r.same(\"try_owned_into_existing value/m{mask}\", dbg(&o1), \"{}\".replace(\"Tf\", \"T\")); r.same(\"try_ref_into_existing value/m{mask}\", dbg(&o2), \"{}\".replace(\"Tf\", \"T\"));", lit("Tf", &okvals), lit("Tf", &okvals));
        }
        let _ = writeln!(o, "  }}");
    }
    o.push_str("}\n");
    let _ = fld;
    (o, item)
}

/// bare `#[parent]` whose own fallible conversion raises: the error must come out of every fallible flavour of the outer
/// conversion (owned and by reference, Into and IntoExisting, and TryFrom).  Fixed layouts: named / tuple x plain member
/// first / last.  (seed C07-03: a missing `?` after the parent's try_into_existing in the by-reference TryInto only)
pub fn raise_parent_modules() -> Vec<(String, Vec<String>, Vec<String>)> {
    let mut v = vec![];
    for named in [true, false] {
        for plain_first in [true, false] {
            for overlap in [false, true] {
                let d = "#[derive(Clone, Debug, PartialEq, Default)]";
                let mut o = String::from(HEAD);
                let _ = writeln!(o, "{d} pub struct Tf {{ pub u: i32, pub a: i32, pub b: i32 }}");
                let p_item = "#[try_from_ref(Tf, Er)]\n#[try_into_existing(Tf, Er)]\npub struct P { #[try_from_ref(chk(~, 10)?)] #[try_into(chk(~, 10)?)] pub a: i32, pub b: i32 }\n".to_string();
                let _ = writeln!(o, "{d}\n#[derive(o2o::o2o)]\n{}", p_item);
                let hint = if named { "" } else { " as {}" };
                let plain = if named { "#[try_map(chk(~, 20)?)] u: i32" } else { "#[try_map(u, chk(~, 20)?)] i32" };
                // `overlap`: an own member that writes a field the parent writes too (the order of the two writes is then observable)
                let extra = if named { "#[map(b)] ub: i32" } else { "#[map(b)] i32" };
                let parent = if named { "#[parent] p: P" } else { "#[parent] P" };
                let mut members = if plain_first { vec![plain, parent] } else { vec![parent, plain] };
                if overlap {
                    members.push(extra);
                }
                let s_item = format!("#[try_map(Tf{hint}, Er)]\n#[try_into_existing(Tf{hint}, Er)]\n{}\n", if named { format!("pub struct S {{ {} }}", members.join(", ")) } else { format!("pub struct S({});", members.join(", ")) });
                let _ = writeln!(o, "{d}\n#[derive(o2o::o2o)]\n{}", s_item);
                let s_val = |u: i64, a: i64, b: i64, ub: i64| {
                    let pu = if named { format!("u: {}", u) } else { u.to_string() };
                    let pp = if named { format!("p: P {{ a: {}, b: {} }}", a, b) } else { format!("P {{ a: {}, b: {} }}", a, b) };
                    let mut parts = if plain_first { vec![pu, pp] } else { vec![pp, pu] };
                    if overlap {
                        parts.push(if named { format!("ub: {}", ub) } else { ub.to_string() });
                    }
                    if named { format!("S {{ {} }}", parts.join(", ")) } else { format!("S({})", parts.join(", ")) }
                };
                let _ = writeln!(o, "pub fn run(r: &mut Rec) {{");
                // which member is triggered: none | the plain one | the parent's | both
                for (label, u, a) in [("none", 5i64, 7i64), ("plain", -777, 7), ("parent", 5, -777), ("both", -777, -777)] {
                    let exp_err = match label { "plain" => Some(20), "parent" => Some(10), _ => None };
                    if label != "both" {
                        let exp_s = match exp_err { Some(m) => format!("Err(Er({}))", m), None => format!("Ok({})", s_val(u + 20, a + 10, 9, 9)) };
                        let _ = writeln!(o, "  {{ let t = Tf {{ u: {u}, a: {a}, b: 9 }}; r.same(\"try_from_owned/{label}\", dbg(&<S as TryFrom<Tf>>::try_from(t.clone())), \"{exp_s}\".to_string()); r.same(\"try_from_ref/{label}\", dbg(&<S as TryFrom<&Tf>>::try_from(&t)), \"{exp_s}\".to_string()); }}");
                    }
                    let _ = writeln!(o, "  {{ let s = {};", s_val(u, a, 9, 44));
                    let _ = writeln!(o, "    let i1 = <S as TryInto<Tf>>::try_into(s.clone()); let i2 = <&S as TryInto<Tf>>::try_into(&s);");
                    let _ = writeln!(o, "    let mut o1 = Tf {{ u: 900, a: 901, b: 902 }}; let e1 = <S as TryIntoExisting<Tf>>::try_into_existing(s.clone(), &mut o1).map(|_| o1); let mut o2 = Tf {{ u: 900, a: 901, b: 902 }}; let e2 = <&S as TryIntoExisting<Tf>>::try_into_existing(&s, &mut o2).map(|_| o2);");
                    // differential: the flavours agree with each other on value and on the error that comes out
                    let _ = writeln!(o, "    r.same(\"try_ref_into==try_owned_into/{label}\", dbg(&i2), dbg(&i1)); r.same(\"try_owned_into_existing==try_owned_into/{label}\", dbg(&e1), dbg(&i1)); r.same(\"try_ref_into_existing==try_owned_into/{label}\", dbg(&e2), dbg(&i1));");
                    if label != "both" && !overlap {
                        let exp_t = match exp_err { Some(m) => format!("Err(Er({}))", m), None => format!("Ok(T {{ u: {}, a: {}, b: 9 }})", u + 20, a + 10) };
                        let _ = writeln!(o, "    r.same(\"try_owned_into/{label}\", dbg(&i1), \"{exp_t}\".to_string());");
                    } else if label != "both" {
                        // with an overlapping write only the error (or its absence) is fixed by the statement
                        let exp_e = match exp_err { Some(m) => format!("Err(Er({}))", m), None => "Ok(())".to_string() };
                        let _ = writeln!(o, "    r.same(\"try_owned_into/{label}\", dbg(&i1.map(|_| ())), \"{exp_e}\".to_string());");
                    }
                    let _ = writeln!(o, "  }}");
                }
                o.push_str("}\n");
                v.push((o, vec![s_item, p_item], vec!["raise-parent".to_string(), format!("shape={}", if named { "named" } else { "tuple" }), format!("plain_first={}", plain_first), format!("overlap={}", overlap)]));
            }
        }
    }
    v
}
