//! Helpers for the metamorphic checks: comparing two expansions, rewriting items.

use crate::ir::{analyse, ImplIR, OutIR};
use crate::item::{Form, Instr, Item};
use crate::model::{appl, ghost_appl, Kind};
use crate::xp::{canon, expand_ts, split_impls, Xp};

#[derive(Debug, Clone, PartialEq, Eq, Hash)]
pub enum Out {
    /// sorted canonical texts of the generated items
    Impls(Vec<String>),
    Errs(Vec<String>),
    Panic(String),
}

pub struct Expanded {
    pub out: Out,
    pub impls: Vec<ImplIR>, // empty when unparsable
}

pub fn expand_item(src: &str) -> Expanded {
    match expand_ts(src) {
        Ok(Ok(ts)) => {
            let (items, impls) = match analyse(&ts) {
                OutIR::Impls(impls, 0) => (impls.iter().map(|i| i.text.clone()).collect::<Vec<_>>(), impls),
                _ => match split_impls(&ts) {
                    Some(v) => (v.iter().map(canon).collect(), vec![]),
                    None => (vec![canon(&ts)], vec![]),
                },
            };
            let mut items = items;
            items.sort();
            Expanded { out: Out::Impls(items), impls }
        }
        Ok(Err(m)) => Expanded { out: Out::Errs(m), impls: vec![] },
        Err(Xp::Panic { msg, loc }) => Expanded { out: Out::Panic(format!("{} @ {}", msg, loc.split(':').next().unwrap_or(""))), impls: vec![] },
        Err(x) => {
            eprintln!("MACHINERY-ERROR: generator produced a non-item: {} :: {}", x.short(), src);
            std::process::exit(2);
        }
    }
}

pub fn verdict(o: &Out) -> &'static str {
    match o {
        Out::Impls(_) => "ok",
        Out::Errs(_) => "err",
        Out::Panic(_) => "panic",
    }
}

/// difference between two expansions: None = equal (impl multisets equal / same diagnostics as a set)
pub fn diff(a: &Out, b: &Out, strip_suffix: bool) -> Option<(String, String)> {
    match (a, b) {
        (Out::Impls(x), Out::Impls(y)) => {
            if x == y {
                None
            } else {
                let only_a: Vec<&String> = x.iter().filter(|i| !y.contains(i)).collect();
                let only_b: Vec<&String> = y.iter().filter(|i| !x.contains(i)).collect();
                Some(("different-expansion".into(), format!("{} impl(s) only in the first, {} only in the second; first differing: A<{}> B<{}>", only_a.len(), only_b.len(), only_a.first().map(|s| crate::xp::trunc(s, 500)).unwrap_or_default(), only_b.first().map(|s| crate::xp::trunc(s, 500)).unwrap_or_default())))
            }
        }
        (Out::Errs(x), Out::Errs(y)) => {
            let norm = |v: &Vec<String>| {
                let mut v: Vec<String> = v.iter().map(|m| if strip_suffix { m.replace(" To turn this message off, use #[o2o(allow_unknown)]", "") } else { m.clone() }).collect();
                v.sort();
                v.dedup();
                v
            };
            if norm(x) == norm(y) {
                None
            } else {
                Some(("different-diagnostics".into(), format!("A{:?} B{:?}", norm(x), norm(y))))
            }
        }
        (Out::Panic(x), Out::Panic(y)) if x == y => None,
        _ => Some(("different-verdict".into(), format!("A={} B={}", verdict(a), verdict(b)))),
    }
}

// ---------------------------------------------------------------------------------------------------------------
// C12: shortcut -> basics

/// the documented basic instructions a shortcut abbreviates (None: `name` is not a shortcut)
pub fn basics_of(name: &str) -> Option<Vec<&'static str>> {
    if let Some((dirs, fallible)) = appl(name) {
        if dirs.len() > 1 {
            return Some(dirs.iter().map(|d| Kind { dir: *d, fallible }.basic_name()).collect());
        }
        return None;
    }
    match name {
        "ghost" => Some(vec!["ghost_owned", "ghost_ref"]),
        "ghosts" => Some(vec!["ghosts_owned", "ghosts_ref"]),
        _ => None,
    }
}

/// rewrite `[shortcut(args)]` occurrences inside a parameterised #[parent(..)] body
pub fn rewrite_parent_body(body: &str) -> (String, usize) {
    let re = regex::Regex::new(r"\[(map_owned|map_ref|map|from|into_existing|into)\(([^\]]*)\)\]").unwrap();
    let mut n = 0;
    let out = re
        .replace_all(body, |c: &regex::Captures| {
            n += 1;
            basics_of(&c[1]).unwrap().iter().map(|b| format!("[{}({})]", b, &c[2])).collect::<Vec<_>>().join(" ")
        })
        .to_string();
    (out, n)
}

/// number of shortcut occurrences (type level, member level, nested parent level)
pub fn shortcut_sites(item: &Item) -> usize {
    let mut n = 0;
    for l in item.attr_lists() {
        for i in l {
            if i.fixed {
                continue;
            }
            if basics_of(&i.name).is_some() {
                n += 1;
            }
            if i.name == "parent" && rewrite_parent_body(&i.body).1 > 0 {
                n += 1;
            }
        }
    }
    n
}

/// rewrite the selected shortcut occurrences (in site order) to their basic instructions
pub fn rewrite_shortcuts(item: &Item, select: &[bool]) -> Item {
    let mut out = item.clone();
    let mut site = 0;
    for l in out.attr_lists_mut() {
        let mut nl: Vec<Instr> = vec![];
        for i in l.iter() {
            if i.fixed {
                nl.push(i.clone());
                continue;
            }
            if let Some(bs) = basics_of(&i.name) {
                let sel = select.get(site).copied().unwrap_or(false);
                site += 1;
                if sel {
                    for (bi, b) in bs.iter().enumerate() {
                        let mut x = i.clone();
                        x.name = b.to_string();
                        // keep list structure: the first copy keeps the form, the others join/open like it
                        x.form = match i.form {
                            Form::Bare => if crate::item::has_bare_form(b) { Form::Bare } else { Form::O2o },
                            Form::O2o => if bi == 0 { Form::O2o } else { Form::Join },
                            Form::Join => Form::Join,
                        };
                        nl.push(x);
                    }
                    continue;
                }
            } else if i.name == "parent" && rewrite_parent_body(&i.body).1 > 0 {
                let sel = select.get(site).copied().unwrap_or(false);
                site += 1;
                if sel {
                    let mut x = i.clone();
                    x.body = rewrite_parent_body(&i.body).0;
                    nl.push(x);
                    continue;
                }
            }
            nl.push(i.clone());
        }
        // a Join must follow an O2o/Join: repair forms broken by Bare -> O2o replacement
        for k in 0..nl.len() {
            if nl[k].form == Form::Join && (k == 0 || nl[k - 1].form == Form::Bare) {
                nl[k].form = Form::O2o;
            }
        }
        *l = nl;
    }
    out
}

pub fn _ghost_appl(name: &str) -> Option<(bool, bool)> {
    ghost_appl(name)
}
