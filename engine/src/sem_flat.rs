//! Semantics-first generator of flattening cases (C03): `#[child(path)]` + `#[child_parents]` (+ ghosts addressed by
//! child path), parameterised `#[parent(..)]` and bare `#[parent]`.

use crate::explore::Ctx;
use crate::item::{Field, Instr, Item, Shape};
use std::collections::BTreeMap;
use std::fmt::Write;

/// universe of child paths: sibling names where one is a string prefix of the other, depth <= 3
pub const PATHS: [&str; 6] = ["p", "pq", "p.q", "p.qr", "p.q.r", "r"];

fn ty_of(path: &str) -> String {
    format!("N_{}", path.replace('.', "_"))
}
fn parent_of(path: &str) -> &str {
    match path.rfind('.') {
        Some(i) => &path[..i],
        None => "",
    }
}
fn last_seg(path: &str) -> &str {
    path.rsplit('.').next().unwrap()
}

#[derive(Clone, Copy, Debug, PartialEq, Eq)]
pub enum Leaf {
    Plain,
    Rename,
    Expr,
}

#[derive(Clone, Debug)]
pub struct FMem {
    pub name: String,
    pub node: String, // "" = root
    pub leaf: Leaf,
    pub marker: i64,
    pub orig: usize, // index before permutation (value identity)
}

#[derive(Clone, Debug)]
pub struct ChildCase {
    pub nodes: Vec<String>,
    pub members: Vec<FMem>, // in flat declaration order (already permuted)
    pub ghosts: Vec<(String, String, i64)>, // (node path, field, marker)
    /// tuple structs all the way down: the flat struct, the counterpart and every nested struct are positional;
    /// child paths, child_parents keys, member renames and ghosts fields are indices (`#[child(1)] #[map(0)]`,
    /// `#[child_parents(1: N)]`, `#[ghosts(1@2: {..})]`)
    pub positional: bool,
    /// `#[child_parents]` written as a default DECOY instruction (wrong types) followed by the real one dedicated to
    /// each counterpart
    pub decoy: bool,
    /// see FlatOpts::update
    pub update: bool,
    /// see FlatOpts::existing_only
    pub existing_only: bool,
    pub tags: Vec<String>,
}

pub struct FlatOpts {
    pub max_members: usize,
    pub max_ghosts: usize,
    pub max_depth: usize,
    pub positional: bool,
    /// a fixed node set instead of the chosen subset of PATHS (deep layouts whose choice cost would exceed any bound)
    pub fixed_nodes: Option<&'static [&'static str]>,
    /// the conversions carry `..Default::default()` and every struct of the counterpart (also the nested ones) has one
    /// more field `u` that no member provides (C08: the update expression completes every literal the conversion builds)
    pub update: bool,
    /// plain members only
    pub plain_only: bool,
    /// only From and IntoExisting are requested and there is NO #[child_parents] (README: those kinds need only #[child]);
    /// struct-level ghosts addressed by child path must still be written by into_existing (seed C03-10)
    pub existing_only: bool,
}

impl FlatOpts {
    pub const DEF: FlatOpts = FlatOpts { max_members: 3, max_ghosts: 1, max_depth: 2, positional: false, fixed_nodes: None, update: false, plain_only: false, existing_only: false };
}

pub fn gen_child(ctx: &mut Ctx, o: &FlatOpts) -> Option<ChildCase> {
    // node set: subset of PATHS closed under prefix
    let mut nodes: Vec<String> = vec![];
    if let Some(f) = o.fixed_nodes {
        nodes = f.iter().map(|x| x.to_string()).collect();
    }
    for p in PATHS {
        if o.fixed_nodes.is_some() {
            break;
        }
        if p.matches('.').count() + 1 > o.max_depth {
            continue;
        }
        if ctx.flag() {
            let par = parent_of(p);
            if !par.is_empty() && !nodes.iter().any(|n| n == par) {
                return ctx.reject();
            }
            nodes.push(p.to_string());
        }
    }
    if nodes.is_empty() {
        return ctx.reject();
    }
    let n = 2 + ctx.choose(o.max_members - 1);
    let mut members = vec![];
    let mut marker = 0;
    for k in 0..n {
        let ni = ctx.choose(nodes.len() + 1);
        let node = if ni == 0 { String::new() } else { nodes[ni - 1].clone() };
        let leaf = if o.plain_only { Leaf::Plain } else { [Leaf::Plain, Leaf::Rename, Leaf::Expr][ctx.choose(3)] };
        if o.positional && leaf == Leaf::Rename {
            return ctx.reject(); // every positional member carries its designated index anyway
        }
        marker += 1;
        members.push(FMem { name: ["a", "b", "c", "d", "e"][k].to_string(), node, leaf, marker, orig: k });
    }
    let ng = ctx.choose(o.max_ghosts + 1);
    let mut ghosts = vec![];
    for g in 0..ng {
        let ni = ctx.choose(nodes.len() + 1);
        let node = if ni == 0 { String::new() } else { nodes[ni - 1].clone() };
        marker += 1;
        ghosts.push((node, format!("g{}", g), marker));
    }
    // every node must receive something (a member, a ghost or a descendant), otherwise the counterpart cannot be built
    for nd in &nodes {
        let covered = members.iter().any(|m| m.node == *nd || m.node.starts_with(&format!("{}.", nd))) || ghosts.iter().any(|g| g.0 == *nd || g.0.starts_with(&format!("{}.", nd)));
        if !covered {
            return ctx.reject();
        }
    }
    // every permutation of the flat members
    let perm = ctx.permutation(n);
    let members: Vec<FMem> = perm.iter().map(|i| members[*i].clone()).collect();
    let mut tags = vec![format!("nodes={}", nodes.join("|")), format!("n={}", n), format!("ghosts={}", ng)];
    if perm.iter().enumerate().any(|(i, p)| i != *p) {
        tags.push("permuted".into());
    }
    // members of one node that are not adjacent in the flat struct
    for nd in nodes.iter() {
        let idx: Vec<usize> = members.iter().enumerate().filter(|(_, m)| m.node == *nd || m.node.starts_with(&format!("{}.", nd))).map(|x| x.0).collect();
        if idx.windows(2).any(|w| w[1] != w[0] + 1) {
            tags.push("interleaved".into());
        }
    }
    if ghosts.iter().any(|g| !g.0.is_empty() && !members.iter().any(|m| m.node == g.0)) {
        tags.push("ghost-only-node".into());
    }
    let decoy = !o.plain_only && !o.existing_only && ctx.flag();
    if decoy {
        tags.push("child_parents-decoy".into());
    }
    let mut case = ChildCase { nodes, members, ghosts, positional: o.positional, decoy, update: o.update && !o.positional, existing_only: o.existing_only && !o.positional, tags: vec![] };
    if case.existing_only {
        tags.push("existing-only".into());
    }
    if case.update {
        tags.push("update".into());
    }
    if o.positional {
        tags.push("positional".into());
        tags.push(if case.pos_ordered() { "pos-ordered".into() } else { "pos-unordered".into() });
    }
    tags.sort();
    tags.dedup();
    case.tags = tags;
    Some(case)
}

impl ChildCase {
    /// positional cases only: does the order in which the flat struct declares things coincide with the designated
    /// positions (members by index, then nested structs, then ghosts) in every struct of the counterpart?  Where it does
    /// not, the conversion has to place values by designated index rather than by declaration order.
    pub fn pos_ordered(&self) -> bool {
        let under = |m: &FMem, nd: &str| m.node == nd || m.node.starts_with(&format!("{}.", nd));
        let mut structs: Vec<String> = vec![String::new()];
        structs.extend(self.nodes.iter().cloned());
        for x in &structs {
            let mut seq: Vec<usize> = vec![];
            let mut ms: Vec<(usize, &FMem)> = self.members.iter().enumerate().filter(|(_, m)| m.node == *x).collect();
            ms.sort_by_key(|(_, m)| m.orig);
            seq.extend(ms.iter().map(|(i, _)| *i));
            let mut ghost_only = 0;
            for c in self.nodes.iter().filter(|c| parent_of(c) == x.as_str()) {
                match self.members.iter().position(|m| under(m, c)) {
                    Some(i) => {
                        if ghost_only > 0 {
                            return false; // a ghost-only nested struct is rendered after every struct that has members
                        }
                        seq.push(i)
                    }
                    None => ghost_only += 1,
                }
            }
            if ghost_only > 1 || seq.windows(2).any(|w| w[0] >= w[1]) {
                return false;
            }
        }
        true
    }
    fn target(&self, m: &FMem) -> String {
        if self.positional {
            // designated index = position in the node's field list (members by identity, then nested structs, then ghosts)
            let mut ms: Vec<&FMem> = self.members.iter().filter(|x| x.node == m.node).collect();
            ms.sort_by_key(|x| x.orig);
            return ms.iter().position(|x| x.orig == m.orig).unwrap().to_string();
        }
        if m.leaf == Leaf::Rename { format!("x{}", m.name) } else { m.name.clone() }
    }
    /// the segment under which `node` hangs in its parent, as written in paths
    fn seg(&self, node: &str) -> String {
        if !self.positional {
            return last_seg(node).to_string();
        }
        let ty = ty_of(node);
        self.node_fields(parent_of(node)).iter().position(|f| f.1 == ty).unwrap().to_string()
    }
    /// the child path of `node` as written in instructions
    pub fn path_text(&self, node: &str) -> String {
        let mut segs = vec![];
        let mut cur = node;
        while !cur.is_empty() {
            segs.push(self.seg(cur));
            cur = parent_of(cur);
        }
        segs.reverse();
        // `1.0` would lex as a float literal: positional paths are written `1 .0`
        segs.join(if self.positional { " ." } else { "." })
    }
    fn ghost_field(&self, g: &(String, String, i64)) -> String {
        if !self.positional {
            return g.1.clone();
        }
        // positions inside a struct: members (by identity), nested structs, ghosts
        let nm = self.members.iter().filter(|x| x.node == g.0).count() + self.nodes.iter().filter(|c| parent_of(c) == g.0).count();
        let gi = self.ghosts.iter().filter(|x| x.0 == g.0).position(|x| x.1 == g.1).unwrap();
        (nm + gi).to_string()
    }
    pub fn nontrivial(&self) -> bool {
        true
    }
    pub fn item(&self, name: &str, both: bool) -> Item {
        let mut fields = vec![];
        for m in &self.members {
            let mut f = if self.positional { Field::pos("i32") } else { Field::named(&m.name, "i32") };
            if !m.node.is_empty() {
                f.attrs.push(Instr::new("child", None, &self.path_text(&m.node)));
            }
            match (m.leaf, self.positional) {
                (Leaf::Plain, false) => {}
                (Leaf::Plain, true) | (Leaf::Rename, _) => f.attrs.push(Instr::new("map", None, &self.target(m))),
                (Leaf::Expr, false) => f.attrs.push(Instr::new("map", None, &format!("~ + {}", m.marker))),
                (Leaf::Expr, true) => f.attrs.push(Instr::new("map", None, &format!("{}, ~ + {}", self.target(m), m.marker))),
            }
            fields.push(f);
        }
        let mut it = Item::new_struct(name, if self.positional { Shape::Tuple } else { Shape::Named }, fields);
        let upd = if self.update { "| ..Default::default()" } else { "" };
        let m = if self.existing_only { "from" } else { "map" };
        it.attrs.push(Instr::new(m, None, &format!("T{}", upd)));
        it.attrs.push(Instr::new("into_existing", None, "T"));
        if both {
            it.attrs.push(Instr::new(&format!("try_{}", m), None, &format!("Tf, Er{}", upd)));
            it.attrs.push(Instr::new("try_into_existing", None, "Tf, Er"));
        }
        let real = self.nodes.iter().map(|n| format!("{}: {}", self.path_text(n), ty_of(n))).collect::<Vec<_>>().join(", ");
        if self.decoy {
            it.attrs.push(Instr::new("child_parents", None, &self.nodes.iter().map(|n| format!("{}: Decoy_{}", self.path_text(n), ty_of(n))).collect::<Vec<_>>().join(", ")));
            it.attrs.push(Instr::new("child_parents", Some("T"), &real));
            if both {
                it.attrs.push(Instr::new("child_parents", Some("Tf"), &real));
            }
        } else if !self.existing_only {
            it.attrs.push(Instr::new("child_parents", None, &real));
        }
        if !self.ghosts.is_empty() {
            it.attrs.push(Instr::new("ghosts", None, &self.ghosts.iter().map(|g| if g.0.is_empty() { format!("{}: {{ {} }}", self.ghost_field(g), g.2) } else { format!("{}@{}: {{ {} }}", self.path_text(&g.0), self.ghost_field(g), g.2) }).collect::<Vec<_>>().join(", ")));
        }
        it
    }

    /// fields of a node: (field name, kind) in a deterministic order
    fn node_fields(&self, node: &str) -> Vec<(String, String)> {
        let mut v: Vec<(String, String)> = vec![];
        let mut ms: Vec<&FMem> = self.members.iter().filter(|m| m.node == node).collect();
        ms.sort_by_key(|m| m.orig);
        for m in ms {
            v.push((self.target(m), "i32".into()));
        }
        for c in self.nodes.iter().filter(|c| parent_of(c) == node) {
            v.push((last_seg(c).to_string(), ty_of(c)));
        }
        for g in self.ghosts.iter().filter(|g| g.0 == node) {
            v.push((g.1.clone(), "i32".into()));
        }
        if self.update {
            v.push(("u".into(), "i32".into()));
        }
        if self.positional {
            for (i, f) in v.iter_mut().enumerate() {
                f.0 = i.to_string();
            }
        }
        v
    }

    pub fn defs(&self) -> String {
        let mut o = String::new();
        let d = "#[derive(Clone, Debug, PartialEq, Default)]";
        let body = |nd: &str| {
            if self.positional {
                format!("({});", self.node_fields(nd).iter().map(|(_, t)| format!("pub {}", t)).collect::<Vec<_>>().join(", "))
            } else {
                format!(" {{ {} }}", self.node_fields(nd).iter().map(|(f, t)| format!("pub {}: {}", f, t)).collect::<Vec<_>>().join(", "))
            }
        };
        for nd in &self.nodes {
            let _ = writeln!(o, "{} pub struct {}{}", d, ty_of(nd), body(nd));
        }
        for t in ["T", "Tf"] {
            let _ = writeln!(o, "{} pub struct {}{}", d, t, body(""));
        }
        o
    }

    /// literal of a node given leaf values (by member orig index) and ghost values
    pub fn node_literal(&self, node: &str, tyname: &str, mval: &dyn Fn(&FMem) -> i64, gval: &dyn Fn(&(String, String, i64)) -> i64) -> String {
        self.node_literal_u(node, tyname, mval, gval, 0)
    }
    /// `u`: the value of the field that only the update expression can supply (cases with `update`)
    pub fn node_literal_u(&self, node: &str, tyname: &str, mval: &dyn Fn(&FMem) -> i64, gval: &dyn Fn(&(String, String, i64)) -> i64, u: i64) -> String {
        let mut parts = vec![];
        let mut ms: Vec<&FMem> = self.members.iter().filter(|m| m.node == node).collect();
        ms.sort_by_key(|m| m.orig);
        for m in ms {
            parts.push(format!("{}: {}", self.target(m), mval(m)));
        }
        for c in self.nodes.iter().filter(|c| parent_of(c) == node) {
            parts.push(format!("{}: {}", last_seg(c), self.node_literal_u(c, &ty_of(c), mval, gval, u)));
        }
        for g in self.ghosts.iter().filter(|g| g.0 == node) {
            parts.push(format!("{}: {}", g.1, gval(g)));
        }
        if self.update {
            parts.push(format!("u: {}", u));
        }
        if self.positional {
            // parts are in node_fields order = index order
            return format!("{}({})", tyname, parts.iter().map(|p| p.splitn(2, ": ").nth(1).unwrap().to_string()).collect::<Vec<_>>().join(", "));
        }
        format!("{} {{ {} }}", tyname, parts.join(", "))
    }

    /// literal of the flat deriving struct
    pub fn s_literal(&self, vals: &dyn Fn(&FMem) -> i64) -> String {
        if self.positional {
            format!("S({})", self.members.iter().map(|m| vals(m).to_string()).collect::<Vec<_>>().join(", "))
        } else {
            format!("S {{ {} }}", self.members.iter().map(|m| format!("{}: {}", m.name, vals(m))).collect::<Vec<_>>().join(", "))
        }
    }

    pub fn render_module(&self) -> String {
        let mut o = String::new();
        let _ = writeln!(o, "#![allow(unused, non_camel_case_types, clippy::all)]\nuse crate::common::*;\nuse o2o::traits::*;");
        o.push_str(&self.defs());
        let _ = writeln!(o, "#[derive(Clone, Debug, PartialEq, Default, o2o::o2o)]\n{}", self.item("S", true).render());
        let _ = writeln!(o, "pub fn run(r: &mut Rec) {{");
        let s_lit = |vals: &dyn Fn(&FMem) -> i64| self.s_literal(vals);
        for assign in 0..2i64 {
            let tv = move |m: &FMem| 1000 * (m.orig as i64 + 1) + assign * 37;
            let sv = move |m: &FMem| 100_000 + 1000 * (m.orig as i64 + 1) + assign * 41;
            for fallible in [false, true] {
                let tn = if fallible { "Tf" } else { "T" };
                let f = if fallible { "try_" } else { "" };
                let wrap = |e: String| if fallible { format!("Ok::<_, Er>({})", e) } else { e };
                // From: T holds tv (ghost slots hold 4242), expected S = tv (+marker)
                let tlit = self.node_literal_u("", tn, &tv, &|_| 4242, 777);
                let es = s_lit(&|m: &FMem| tv(m) + if m.leaf == Leaf::Expr { m.marker } else { 0 });
                let a = assign;
                if fallible {
                    let _ = writeln!(o, "  {{ let t = {tlit}; r.eq(\"{f}from_owned/{a}\", &<S as TryFrom<{tn}>>::try_from(t.clone()), &{e}); r.eq(\"{f}from_ref/{a}\", &<S as TryFrom<&{tn}>>::try_from(&t), &{e}); }}", e = wrap(es.clone()));
                } else {
                    let _ = writeln!(o, "  {{ let t = {tlit}; r.eq(\"from_owned/{a}\", &<S as From<{tn}>>::from(t.clone()), &{e}); r.eq(\"from_ref/{a}\", &<S as From<&{tn}>>::from(&t), &{e}); }}", e = es);
                }
                // Into / IntoExisting: expected nested literal
                let slit = s_lit(&sv);
                // `..Default::default()` supplies u = 0 in EVERY literal the conversion builds; into_existing has no update
                // expression and leaves u as it was
                let et = self.node_literal_u("", tn, &|m: &FMem| sv(m) + if m.leaf == Leaf::Expr { m.marker } else { 0 }, &|g| g.2, 0);
                let ete = self.node_literal_u("", tn, &|m: &FMem| sv(m) + if m.leaf == Leaf::Expr { m.marker } else { 0 }, &|g| g.2, 900_500);
                let pre = self.node_literal_u("", tn, &|m: &FMem| 900_000 + m.orig as i64, &|g| 900_100 + g.2, 900_500);
                if fallible {
                    if !self.existing_only {
                        let _ = writeln!(o, "  {{ let s = {slit}; r.eq(\"{f}owned_into/{a}\", &<S as TryInto<{tn}>>::try_into(s.clone()), &{e}); r.eq(\"{f}ref_into/{a}\", &<&S as TryInto<{tn}>>::try_into(&s), &{e}); }}", e = wrap(et.clone()));
                    }
                    let _ = writeln!(o, "  {{ let s = {slit}; let mut o1 = {pre}; let r1 = <S as TryIntoExisting<{tn}>>::try_into_existing(s.clone(), &mut o1); r.eq(\"{f}owned_into_existing/{a}\", &r1.map(|_| o1), &{e}); let mut o2 = {pre}; let r2 = <&S as TryIntoExisting<{tn}>>::try_into_existing(&s, &mut o2); r.eq(\"{f}ref_into_existing/{a}\", &r2.map(|_| o2), &{e}); }}", e = wrap(ete.clone()));
                } else {
                    if !self.existing_only {
                        let _ = writeln!(o, "  {{ let s = {slit}; r.eq(\"owned_into/{a}\", &<S as Into<{tn}>>::into(s.clone()), &{e}); r.eq(\"ref_into/{a}\", &<&S as Into<{tn}>>::into(&s), &{e}); }}", e = et);
                    }
                    let _ = writeln!(o, "  {{ let s = {slit}; let mut o1 = {pre}; <S as IntoExisting<{tn}>>::into_existing(s.clone(), &mut o1); r.eq(\"owned_into_existing/{a}\", &o1, &{e}); let mut o2 = {pre}; <&S as IntoExisting<{tn}>>::into_existing(&s, &mut o2); r.eq(\"ref_into_existing/{a}\", &o2, &{e}); }}", e = ete);
                }
            }
        }
        o.push_str("}\n");
        o
    }
}

// ---------------------------------------------------------------------------------------------------------------
// parameterised #[parent(..)] (the mirror direction): the deriving struct is nested, the counterpart is flat

#[derive(Clone, Debug)]
pub struct PLeaf {
    pub this: String,       // field name inside the nested struct
    pub that: String,       // field name in the flat counterpart
    pub renamed: bool,
    pub expr: bool,
    pub marker: i64,
    pub sub: Vec<String>,   // nested path below the parent member ("" = directly in P; else e.g. ["q"])
    pub id: usize,
}

#[derive(Clone, Debug)]
pub struct ParentCase {
    pub leaves: Vec<PLeaf>, // in declaration order inside #[parent(..)]
    pub plain: usize,       // number of plain members of S next to the parent member
    pub parent_first: bool,
    /// `..Default::default()` on the conversions + one more field `w` in every nested struct that no leaf provides
    pub update: bool,
    pub tags: Vec<String>,
}

/// gen_parent with `update` set
pub fn gen_parent_upd(ctx: &mut Ctx, max_leaves: usize) -> Option<ParentCase> {
    gen_parent(ctx, max_leaves).map(|mut c| {
        c.update = true;
        c.tags.push("update".into());
        c
    })
}

pub fn gen_parent(ctx: &mut Ctx, max_leaves: usize) -> Option<ParentCase> {
    let n = 1 + ctx.choose(max_leaves);
    let mut leaves = vec![];
    let mut marker = 0;
    for k in 0..n {
        let sub = match ctx.choose(4) {
            0 => vec![],
            1 => vec!["q".to_string()],
            2 => vec!["q".to_string(), "r".to_string()],
            // a second nested struct next to `q` (sibling nested parents at one level - seed C03-07)
            _ => vec!["s".to_string()],
        };
        let renamed = ctx.flag();
        let expr = ctx.flag();
        marker += 1;
        let this = format!("{}{}", ["f", "g", "h", "i"][k], sub.len());
        leaves.push(PLeaf { that: if renamed { format!("t{}", this) } else { this.clone() }, this, renamed, expr, marker, sub, id: k });
    }
    // the parser groups nested [parent(..)] per sub-struct: leaves of one sub-path must be contiguous in the declaration
    let plain = ctx.choose(2);
    let parent_first = ctx.flag();
    let perm = ctx.permutation(n);
    let leaves: Vec<PLeaf> = perm.iter().map(|i| leaves[*i].clone()).collect();
    let mut tags = vec![format!("leaves={}", n), format!("plain={}", plain)];
    for l in &leaves {
        tags.push(format!("depth={}", l.sub.len()));
        if l.renamed {
            tags.push("renamed".into());
        }
        if l.expr {
            tags.push("expr".into());
        }
    }
    tags.sort();
    tags.dedup();
    Some(ParentCase { leaves, plain, parent_first, update: false, tags })
}

impl ParentCase {
    fn group(&self, prefix: &[String]) -> String {
        // render the leaves whose sub-path starts with `prefix`, nesting deeper ones in [parent(..)] name: Type
        let mut parts: Vec<String> = vec![];
        let mut done_sub: Vec<String> = vec![];
        for l in &self.leaves {
            if l.sub.len() < prefix.len() || l.sub[..prefix.len()] != *prefix {
                continue;
            }
            if l.sub.len() == prefix.len() {
                let mut instr = String::new();
                if l.renamed || l.expr {
                    let body = match (l.renamed, l.expr) {
                        (true, true) => format!("{}, ~ + {}", l.that, l.marker),
                        (true, false) => l.that.clone(),
                        (false, true) => format!("~ + {}", l.marker),
                        _ => unreachable!(),
                    };
                    instr = format!("[map({})] ", body);
                }
                parts.push(format!("{}{}", instr, l.this));
            } else {
                let next = l.sub[prefix.len()].clone();
                if done_sub.contains(&next) {
                    continue;
                }
                done_sub.push(next.clone());
                let mut np = prefix.to_vec();
                np.push(next.clone());
                let tyn = format!("N_{}", np.join("_"));
                parts.push(format!("[parent({})] {}: {}", self.group(&np), next, tyn));
            }
        }
        parts.join(", ")
    }
    pub fn item(&self, name: &str, both: bool) -> Item {
        let mut fields = vec![];
        // a single bare identifier would be read as a dedicated type: `#[parent(x,)]`
        let mut body = self.group(&[]);
        if body.chars().all(|c| c.is_alphanumeric() || c == '_') {
            body.push(',');
        }
        let pf = Field { attrs: vec![Instr::new("parent", None, &body)], name: Some("p".into()), ty: "N_p".into() };
        if self.parent_first {
            fields.push(pf.clone());
        }
        for k in 0..self.plain {
            fields.push(Field::named(["u", "v"][k], "i32"));
        }
        if !self.parent_first {
            fields.push(pf);
        }
        let mut it = Item::new_struct(name, Shape::Named, fields);
        let upd = if self.update { "| ..Default::default()" } else { "" };
        it.attrs.push(Instr::new("map", None, &format!("T{}", upd)));
        it.attrs.push(Instr::new("into_existing", None, "T"));
        if both {
            it.attrs.push(Instr::new("try_map", None, &format!("Tf, Er{}", upd)));
            it.attrs.push(Instr::new("try_into_existing", None, "Tf, Er"));
        }
        it
    }
    fn sub_structs(&self) -> BTreeMap<Vec<String>, Vec<&PLeaf>> {
        let mut m: BTreeMap<Vec<String>, Vec<&PLeaf>> = BTreeMap::new();
        m.entry(vec![]).or_default();
        for l in &self.leaves {
            for d in 0..=l.sub.len() {
                m.entry(l.sub[..d].to_vec()).or_default();
            }
            m.get_mut(&l.sub).unwrap().push(l);
        }
        m
    }
    fn nested_literal(&self, prefix: &[String], val: &dyn Fn(&PLeaf) -> i64) -> String {
        let ss = self.sub_structs();
        let tyn = if prefix.is_empty() { "N_p".to_string() } else { format!("N_{}", prefix.join("_")) };
        let mut parts: Vec<String> = ss[prefix].iter().map(|l| format!("{}: {}", l.this, val(l))).collect();
        for (k, _) in ss.iter().filter(|(k, _)| k.len() == prefix.len() + 1 && k[..prefix.len()] == *prefix) {
            parts.push(format!("{}: {}", k.last().unwrap(), self.nested_literal(k, val)));
        }
        if self.update {
            // only `..Default::default()` can supply it (From); the reverse direction ignores it
            parts.push("w: 0".into());
        }
        format!("{} {{ {} }}", tyn, parts.join(", "))
    }
    pub fn render_module(&self) -> String {
        let mut o = String::new();
        let d = "#[derive(Clone, Debug, PartialEq, Default)]";
        let _ = writeln!(o, "#![allow(unused, non_camel_case_types, clippy::all)]\nuse crate::common::*;\nuse o2o::traits::*;");
        let ss = self.sub_structs();
        for (k, ls) in &ss {
            let tyn = if k.is_empty() { "N_p".to_string() } else { format!("N_{}", k.join("_")) };
            let mut fs: Vec<String> = ls.iter().map(|l| format!("pub {}: i32", l.this)).collect();
            for (c, _) in ss.iter().filter(|(c, _)| c.len() == k.len() + 1 && c[..k.len()] == **k) {
                fs.push(format!("pub {}: N_{}", c.last().unwrap(), c.join("_")));
            }
            if self.update {
                fs.push("pub w: i32".into());
            }
            let _ = writeln!(o, "{} pub struct {} {{ {} }}", d, tyn, fs.join(", "));
        }
        for t in ["T", "Tf"] {
            let mut fs: Vec<String> = self.leaves.iter().map(|l| format!("pub {}: i32", l.that)).collect();
            for k in 0..self.plain {
                fs.push(format!("pub {}: i32", ["u", "v"][k]));
            }
            let _ = writeln!(o, "{} pub struct {} {{ {} }}", d, t, fs.join(", "));
        }
        let _ = writeln!(o, "#[derive(Clone, Debug, PartialEq, Default, o2o::o2o)]\n{}", self.item("S", true).render());
        let _ = writeln!(o, "pub fn run(r: &mut Rec) {{");
        for assign in 0..2i64 {
            let tv = move |l: &PLeaf| 1000 * (l.id as i64 + 1) + assign * 37;
            let sv = move |l: &PLeaf| 100_000 + 1000 * (l.id as i64 + 1) + assign * 41;
            let pv = move |k: usize| 50_000 + 100 * k as i64 + assign;
            for fallible in [false, true] {
                let tn = if fallible { "Tf" } else { "T" };
                let f = if fallible { "try_" } else { "" };
                let wrap = |e: String| if fallible { format!("Ok::<_, Er>({})", e) } else { e };
                let t_lit = |val: &dyn Fn(&PLeaf) -> i64| {
                    let mut fs: Vec<String> = self.leaves.iter().map(|l| format!("{}: {}", l.that, val(l))).collect();
                    for k in 0..self.plain {
                        fs.push(format!("{}: {}", ["u", "v"][k], pv(k)));
                    }
                    format!("{} {{ {} }}", tn, fs.join(", "))
                };
                let s_lit = |val: &dyn Fn(&PLeaf) -> i64| {
                    let mut fs: Vec<String> = vec![format!("p: {}", self.nested_literal(&[], val))];
                    for k in 0..self.plain {
                        fs.push(format!("{}: {}", ["u", "v"][k], pv(k)));
                    }
                    format!("S {{ {} }}", fs.join(", "))
                };
                let a = assign;
                let tlit = t_lit(&tv);
                let es = s_lit(&|l: &PLeaf| tv(l) + if l.expr { l.marker } else { 0 });
                if fallible {
                    let _ = writeln!(o, "  {{ let t = {tlit}; r.eq(\"{f}from_owned/{a}\", &<S as TryFrom<{tn}>>::try_from(t.clone()), &{e}); r.eq(\"{f}from_ref/{a}\", &<S as TryFrom<&{tn}>>::try_from(&t), &{e}); }}", e = wrap(es.clone()));
                } else {
                    let _ = writeln!(o, "  {{ let t = {tlit}; r.eq(\"from_owned/{a}\", &<S as From<{tn}>>::from(t.clone()), &{e}); r.eq(\"from_ref/{a}\", &<S as From<&{tn}>>::from(&t), &{e}); }}", e = es);
                }
                let slit = s_lit(&sv);
                let et = t_lit(&|l: &PLeaf| sv(l) + if l.expr { l.marker } else { 0 });
                let pre = format!("{} {{ {} }}", tn, self.leaves.iter().map(|l| format!("{}: {}", l.that, 900_000 + l.id as i64)).chain((0..self.plain).map(|k| format!("{}: {}", ["u", "v"][k], 900_500 + k as i64))).collect::<Vec<_>>().join(", "));
                if fallible {
                    let _ = writeln!(o, "  {{ let s = {slit}; r.eq(\"{f}owned_into/{a}\", &<S as TryInto<{tn}>>::try_into(s.clone()), &{e}); r.eq(\"{f}ref_into/{a}\", &<&S as TryInto<{tn}>>::try_into(&s), &{e}); }}", e = wrap(et.clone()));
                    let _ = writeln!(o, "  {{ let s = {slit}; let mut o1 = {pre}; let r1 = <S as TryIntoExisting<{tn}>>::try_into_existing(s.clone(), &mut o1); r.eq(\"{f}owned_into_existing/{a}\", &r1.map(|_| o1), &{e}); let mut o2 = {pre}; let r2 = <&S as TryIntoExisting<{tn}>>::try_into_existing(&s, &mut o2); r.eq(\"{f}ref_into_existing/{a}\", &r2.map(|_| o2), &{e}); }}", e = wrap(et.clone()));
                } else {
                    let _ = writeln!(o, "  {{ let s = {slit}; r.eq(\"owned_into/{a}\", &<S as Into<{tn}>>::into(s.clone()), &{e}); r.eq(\"ref_into/{a}\", &<&S as Into<{tn}>>::into(&s), &{e}); }}", e = et);
                    let _ = writeln!(o, "  {{ let s = {slit}; let mut o1 = {pre}; <S as IntoExisting<{tn}>>::into_existing(s.clone(), &mut o1); r.eq(\"owned_into_existing/{a}\", &o1, &{e}); let mut o2 = {pre}; <&S as IntoExisting<{tn}>>::into_existing(&s, &mut o2); r.eq(\"ref_into_existing/{a}\", &o2, &{e}); }}", e = et);
                }
            }
        }
        o.push_str("}\n");
        o
    }
}
