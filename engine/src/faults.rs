//! C15 / C19: documented misuse classes injected into valid hosts.
//!
//! M_diag (DESIGN §4.2): every class maps to *rejection* plus a diagnostic that names the problem, matched by the
//! salient identifiers / key words it must contain (OR of AND-sets, case-insensitive) - never by full wording.

use crate::explore::Ctx;
use crate::item::{Body, Field, Instr, Item, Shape, Variant};

#[derive(Clone, Copy, PartialEq, Eq, Debug)]
pub enum Level {
    Type,
    Member, // struct field or enum variant
}

pub struct Fault {
    pub id: &'static str,
    pub class: &'static str,
    pub level: Level,
    /// hosts this fault makes sense in
    pub hosts: &'static [&'static str],
    /// instructions to add (at type level: inserted at the chosen position; at member level: added to the chosen member)
    pub add: &'static [&'static str],
    /// structural edit applied before adding (None = only add)
    pub edit: Option<fn(&mut Item)>,
    /// OR of AND-sets of lower-case key words
    pub salient: &'static [&'static [&'static str]],
    /// diagnosed while the attributes are parsed (returns early): cannot be aggregated with validation diagnostics
    pub parse_stage: bool,
}

fn remove_trait_instrs(it: &mut Item) {
    it.attrs.retain(|a| crate::model::appl(&a.name).is_none());
}

const ALL: &[&str] = &["named", "tuple-hint", "flat", "parent", "enum", "enum-prim"];
const STRUCTS: &[&str] = &["named", "tuple-hint", "flat", "parent"];
const ENUMS: &[&str] = &["enum", "enum-prim"];

pub const FAULTS: &[Fault] = &[
    Fault { id: "no-trait-instr", class: "no trait instruction", level: Level::Type, hosts: ALL, add: &[], edit: Some(remove_trait_instrs), salient: &[&["trait instruction"]], parse_stage: false },
    Fault { id: "dup-instr", class: "duplicate instruction for a counterpart", level: Level::Type, hosts: ALL, add: &["from_owned(T)", "from(T)"], edit: None, salient: &[&["unique"], &["duplicate"], &["already"], &["twice"]], parse_stage: false },
    Fault { id: "dup-instr-fallible", class: "duplicate instruction for a counterpart", level: Level::Type, hosts: ALL, add: &["try_from_ref(T, Er)", "try_map(T, Er)"], edit: None, salient: &[&["unique"], &["duplicate"], &["already"], &["twice"]], parse_stage: false },
    Fault { id: "missing-error-type", class: "missing error type", level: Level::Type, hosts: ALL, add: &["owned_try_into(V)"], edit: None, salient: &[&["error type"]], parse_stage: false },
    Fault { id: "missing-error-type-existing", class: "missing error type", level: Level::Type, hosts: STRUCTS, add: &["ref_try_into_existing(V)"], edit: None, salient: &[&["error type"]], parse_stage: false },
    Fault { id: "superfluous-error-type", class: "superfluous error type", level: Level::Type, hosts: ALL, add: &["from_ref(V, Er)"], edit: None, salient: &[&["error type"]], parse_stage: false },
    // dedicated to an unknown counterpart (10 forms)
    Fault { id: "unknown-ded-member-map", class: "instruction dedicated to an unknown counterpart", level: Level::Member, hosts: ALL, add: &["map(Zz| zq)"], edit: None, salient: &[&["zz"]], parse_stage: false },
    Fault { id: "unknown-ded-ghost", class: "instruction dedicated to an unknown counterpart", level: Level::Member, hosts: ALL, add: &["ghost(Zz| {1})"], edit: None, salient: &[&["zz"]], parse_stage: false },
    Fault { id: "unknown-ded-ghosts", class: "instruction dedicated to an unknown counterpart", level: Level::Type, hosts: ALL, add: &["ghosts(Zz| zq: {1})"], edit: None, salient: &[&["zz"]], parse_stage: false },
    Fault { id: "unknown-ded-child", class: "instruction dedicated to an unknown counterpart", level: Level::Member, hosts: STRUCTS, add: &["child(Zz| p)"], edit: None, salient: &[&["zz"]], parse_stage: false },
    Fault { id: "unknown-ded-child-parents", class: "instruction dedicated to an unknown counterpart", level: Level::Type, hosts: STRUCTS, add: &["child_parents(Zz| p: P)"], edit: None, salient: &[&["zz"]], parse_stage: false },
    Fault { id: "unknown-ded-parent", class: "instruction dedicated to an unknown counterpart", level: Level::Member, hosts: STRUCTS, add: &["parent(Zz| zq, zr)"], edit: None, salient: &[&["zz"]], parse_stage: false },
    Fault { id: "unknown-ded-where", class: "instruction dedicated to an unknown counterpart", level: Level::Type, hosts: ALL, add: &["where_clause(Zz| i32: Clone)"], edit: None, salient: &[&["zz"]], parse_stage: false },
    Fault { id: "unknown-ded-literal", class: "instruction dedicated to an unknown counterpart", level: Level::Member, hosts: ENUMS, add: &["literal(Zz| 77)"], edit: None, salient: &[&["zz"]], parse_stage: false },
    Fault { id: "unknown-ded-pattern", class: "instruction dedicated to an unknown counterpart", level: Level::Member, hosts: ENUMS, add: &["pattern(Zz| _)"], edit: None, salient: &[&["zz"]], parse_stage: false },
    Fault { id: "unknown-ded-type-hint", class: "instruction dedicated to an unknown counterpart", level: Level::Member, hosts: ENUMS, add: &["type_hint(Zz| as ())"], edit: None, salient: &[&["zz"]], parse_stage: false },
    // duplicate default / dedicated
    Fault { id: "dup-default-ghosts", class: "duplicate default instruction", level: Level::Type, hosts: ALL, add: &["ghosts(zq: {1})", "ghosts(zr: {2})"], edit: None, salient: &[&["ghosts"]], parse_stage: false },
    Fault { id: "dup-dedicated-ghosts", class: "duplicate dedicated instruction", level: Level::Type, hosts: ALL, add: &["ghosts(T| zq: {1})", "ghosts(T| zr: {2})"], edit: None, salient: &[&["ghosts"]], parse_stage: false },
    Fault { id: "dup-default-child-parents", class: "duplicate default instruction", level: Level::Type, hosts: STRUCTS, add: &["child_parents(zp: P)", "child_parents(zq: Q)"], edit: None, salient: &[&["child_parents"]], parse_stage: false },
    Fault { id: "dup-dedicated-child-parents", class: "duplicate dedicated instruction", level: Level::Type, hosts: STRUCTS, add: &["child_parents(T| zp: P)", "child_parents(T| zq: Q)"], edit: None, salient: &[&["child_parents"]], parse_stage: false },
    Fault { id: "dup-default-where", class: "duplicate default instruction", level: Level::Type, hosts: ALL, add: &["where_clause(i8: Clone)", "where_clause(i16: Clone)"], edit: None, salient: &[&["where_clause"]], parse_stage: false },
    Fault { id: "dup-dedicated-where", class: "duplicate dedicated instruction", level: Level::Type, hosts: ALL, add: &["where_clause(T| i8: Clone)", "where_clause(T| i16: Clone)"], edit: None, salient: &[&["where_clause"]], parse_stage: false },
    Fault { id: "dup-default-parent", class: "duplicate default instruction", level: Level::Member, hosts: STRUCTS, add: &["parent(zq, zr)", "parent(zs, zt)"], edit: None, salient: &[&["parent"]], parse_stage: false },
    Fault { id: "dup-dedicated-parent", class: "duplicate dedicated instruction", level: Level::Member, hosts: STRUCTS, add: &["parent(T| zq, zr)", "parent(T| zs, zt)"], edit: None, salient: &[&["parent"]], parse_stage: false },
    Fault { id: "dup-default-literal", class: "duplicate default instruction", level: Level::Member, hosts: ENUMS, add: &["literal(71)", "literal(72)"], edit: None, salient: &[&["literal"]], parse_stage: false },
    Fault { id: "dup-dedicated-pattern", class: "duplicate dedicated instruction", level: Level::Member, hosts: ENUMS, add: &["pattern(T| 71)", "pattern(T| 72)"], edit: None, salient: &[&["pattern"]], parse_stage: false },
    Fault { id: "dup-default-type-hint", class: "duplicate default instruction", level: Level::Member, hosts: ENUMS, add: &["type_hint(as ())", "type_hint(as {})"], edit: None, salient: &[&["type_hint"]], parse_stage: false },
    // misplaced / misnamed
    Fault { id: "misplaced-parent-type", class: "misplaced instruction", level: Level::Type, hosts: ALL, add: &["parent"], edit: None, salient: &[&["parent"]], parse_stage: false },
    Fault { id: "misplaced-child-type", class: "misnamed instruction", level: Level::Type, hosts: ALL, add: &["child(p)"], edit: None, salient: &[&["child"]], parse_stage: false },
    Fault { id: "misnamed-ghost-type", class: "misnamed instruction", level: Level::Type, hosts: ALL, add: &["ghost(zq: {1})"], edit: None, salient: &[&["ghosts"]], parse_stage: false },
    Fault { id: "misnamed-children-type", class: "misnamed instruction", level: Level::Type, hosts: ALL, add: &["children(p: P)"], edit: None, salient: &[&["child_parents"], &["children"]], parse_stage: false },
    Fault { id: "misplaced-literal-type", class: "misplaced instruction", level: Level::Type, hosts: ALL, add: &["literal(1)"], edit: None, salient: &[&["literal"]], parse_stage: false },
    Fault { id: "misplaced-pattern-type", class: "misplaced instruction", level: Level::Type, hosts: ALL, add: &["pattern(_)"], edit: None, salient: &[&["pattern"]], parse_stage: false },
    Fault { id: "misplaced-type-hint-type", class: "misplaced instruction", level: Level::Type, hosts: ALL, add: &["type_hint(as ())"], edit: None, salient: &[&["type_hint"]], parse_stage: false },
    Fault { id: "misplaced-as-type-type", class: "misplaced instruction", level: Level::Type, hosts: ALL, add: &["as_type(i64)"], edit: None, salient: &[&["as_type"]], parse_stage: false },
    Fault { id: "misplaced-repeat-type", class: "misplaced instruction", level: Level::Type, hosts: ALL, add: &["repeat()"], edit: None, salient: &[&["repeat"]], parse_stage: false },
    Fault { id: "misplaced-skip-repeat-type", class: "misplaced instruction", level: Level::Type, hosts: ALL, add: &["skip_repeat"], edit: None, salient: &[&["skip_repeat"]], parse_stage: false },
    Fault { id: "misplaced-stop-repeat-type", class: "misplaced instruction", level: Level::Type, hosts: ALL, add: &["stop_repeat"], edit: None, salient: &[&["stop_repeat"]], parse_stage: false },
    Fault { id: "unknown-instr-type", class: "misnamed instruction", level: Level::Type, hosts: ALL, add: &["o2o:mapp(T)"], edit: None, salient: &[&["mapp"]], parse_stage: false },
    Fault { id: "misnamed-children-member", class: "misnamed instruction", level: Level::Member, hosts: ALL, add: &["children(p)"], edit: None, salient: &[&["child"]], parse_stage: false },
    Fault { id: "misnamed-child-parents-member", class: "misnamed instruction", level: Level::Member, hosts: ALL, add: &["child_parents(p: P)"], edit: None, salient: &[&["child"]], parse_stage: false },
    Fault { id: "misplaced-where-member", class: "misplaced instruction", level: Level::Member, hosts: ALL, add: &["where_clause(i8: Clone)"], edit: None, salient: &[&["where_clause"]], parse_stage: false },
    Fault { id: "misplaced-allow-unknown-member", class: "misplaced instruction", level: Level::Member, hosts: ALL, add: &["o2o:allow_unknown"], edit: None, salient: &[&["allow_unknown"]], parse_stage: false },
    Fault { id: "unknown-instr-member", class: "misnamed instruction", level: Level::Member, hosts: ALL, add: &["o2o:mapp(x)"], edit: None, salient: &[&["mapp"]], parse_stage: false },
    Fault { id: "misplaced-literal-field", class: "misplaced instruction", level: Level::Member, hosts: STRUCTS, add: &["literal(1)"], edit: None, salient: &[&["literal"]], parse_stage: false },
    Fault { id: "misplaced-type-hint-field", class: "misplaced instruction", level: Level::Member, hosts: STRUCTS, add: &["type_hint(as ())"], edit: None, salient: &[&["type_hint"]], parse_stage: false },
    Fault { id: "misplaced-ghosts-field", class: "misplaced instruction", level: Level::Member, hosts: STRUCTS, add: &["ghosts(zq: {1})"], edit: None, salient: &[&["ghosts"]], parse_stage: false },
    Fault { id: "misplaced-parent-variant", class: "misplaced instruction", level: Level::Member, hosts: ENUMS, add: &["parent"], edit: None, salient: &[&["parent"]], parse_stage: false },
    // ghost without default
    Fault { id: "ghost-without-default", class: "ghost without default where one is needed", level: Level::Member, hosts: &["named", "flat", "parent"], add: &["ghost"], edit: None, salient: &[&["default"]], parse_stage: false },
    Fault { id: "ghost-without-default-ded", class: "ghost without default where one is needed", level: Level::Member, hosts: &["named", "flat", "parent"], add: &["ghost(T)"], edit: None, salient: &[&["default"]], parse_stage: false },
    // child without child_parents
    Fault { id: "child-without-child-parents", class: "child without child_parents", level: Level::Member, hosts: &["named"], add: &["child(zp)"], edit: None, salient: &[&["child_parents"]], parse_stage: false },
    Fault { id: "child-missing-path-prefix", class: "child without child_parents", level: Level::Member, hosts: &["flat"], add: &["child(p.zq)"], edit: None, salient: &[&["p.zq"]], parse_stage: false },
    // tuple / named mismatch without member names
    Fault { id: "tuple-named-mismatch", class: "tuple/named mismatch without member names", level: Level::Type, hosts: &["tuple-hint"], add: &[], edit: Some(|it| { if let Body::Struct { fields, .. } = &mut it.body { fields[1].attrs.clear(); } }), salient: &[&["field name"], &["member", "name"]], parse_stage: false },
    // untyped nested parent
    Fault { id: "untyped-nested-parent", class: "untyped nested parent", level: Level::Member, hosts: &["named", "parent"], add: &["parent([parent(zq)] zp)"], edit: None, salient: &[&["zp", "type"]], parse_stage: false },
    Fault { id: "untyped-nested-parent-outer", class: "untyped nested parent", level: Level::Member, hosts: &["named", "parent"], add: &["parent([parent([parent(zq)] zr: Zr)] zp)"], edit: None, salient: &[&["zp", "type"]], parse_stage: false },
    // several untyped nested parents in one instruction: a chain and siblings (one diagnostic each, in declaration order - seed C19-09)
    Fault { id: "untyped-nested-parent-chain", class: "untyped nested parent", level: Level::Member, hosts: &["named", "parent"], add: &["parent([parent([parent(zq)] zr)] zp)"], edit: None, salient: &[&["zp", "type"]], parse_stage: false },
    Fault { id: "untyped-nested-parent-siblings", class: "untyped nested parent", level: Level::Member, hosts: &["named", "parent"], add: &["parent([parent(zq)] zp, [parent(zs)] zt, [parent(zu)] zv)"], edit: None, salient: &[&["zp", "type"]], parse_stage: false },
    // repeat conflicts
    Fault { id: "trait-repeat-unterminated", class: "conflicting repeat parameters", level: Level::Type, hosts: ALL, add: &["from_owned(V1| repeat(), vars(k: {1}))", "from_owned(V2| repeat(), vars(k: {2}))"], edit: None, salient: &[&["repeat"]], parse_stage: true },
    Fault { id: "trait-repeat-overrides-vars", class: "conflicting repeat parameters", level: Level::Type, hosts: ALL, add: &["from_ref(V1| repeat(), vars(k: {1}))", "from_ref(V2| vars(k: {2}))"], edit: None, salient: &[&["vars"], &["skip_repeat"]], parse_stage: true },
    // the repeated template carries everything (`repeat()`) but has no update / quick return / default case of its own: a
    // follower that sets one is still overridden (seed C15-05)
    Fault { id: "trait-repeat-overrides-update", class: "conflicting repeat parameters", level: Level::Type, hosts: STRUCTS, add: &["from_ref(V1| repeat(), vars(k: {1}))", "from_ref(V2| ..Default::default())"], edit: None, salient: &[&["update"], &["skip_repeat"]], parse_stage: true },
    Fault { id: "trait-repeat-overrides-return", class: "conflicting repeat parameters", level: Level::Type, hosts: STRUCTS, add: &["from_ref(V1| repeat(), vars(k: {1}))", "from_ref(V2| return Default::default())"], edit: None, salient: &[&["return"], &["skip_repeat"]], parse_stage: true },
    Fault { id: "trait-repeat-overrides-default-case", class: "conflicting repeat parameters", level: Level::Type, hosts: &["enum"], add: &["from_ref(V1| repeat(), vars(k: {1}))", "from_ref(V2| _ => todo!())"], edit: None, salient: &[&["default case"], &["skip_repeat"]], parse_stage: true },
    Fault { id: "trait-param-twice", class: "conflicting repeat parameters", level: Level::Type, hosts: ALL, add: &["owned_into(V1| vars(k: {1}), vars(j: {2}))"], edit: None, salient: &[&["vars"], &["already"]], parse_stage: true },
    Fault { id: "member-repeat-unterminated", class: "conflicting repeat parameters", level: Level::Member, hosts: &["named", "flat", "enum"], add: &["o2o:repeat()"], edit: Some(|it| {
        // a repeat on member 0 that is never stopped before the injected one
        match &mut it.body {
            Body::Struct { fields, .. } => fields[0].attrs.insert(0, Instr::new("repeat", None, "")),
            Body::Enum { variants } => variants[0].attrs.insert(0, Instr::new("repeat", None, "")),
            _ => {}
        }
    }), salient: &[&["repeat"]], parse_stage: true },
    Fault { id: "permeating-repeat-on-struct", class: "conflicting repeat parameters", level: Level::Member, hosts: &["named", "flat"], add: &["o2o:repeat(permeate())"], edit: None, salient: &[&["permeat"]], parse_stage: false },
];

/// the valid hosts (DESIGN §8 C15)
pub fn host(name: &str) -> Item {
    match name {
        "named" => {
            let mut it = Item::new_struct("S", Shape::Named, vec![Field::named("a", "i32"), Field::named("b", "i32").with(Instr::new("map", None, "x")), Field::named("c", "i32").with(Instr::new("map", Some("U"), "~ + 1"))]);
            it.attrs = vec![Instr::new("map", None, "T"), Instr::new("into_existing", None, "T"), Instr::new("try_map", None, "U, Er")];
            it
        }
        "tuple-hint" => {
            let mut it = Item::new_struct("S", Shape::Tuple, vec![Field::pos("i32").with(Instr::new("map", None, "x")), Field::pos("i32").with(Instr::new("map", None, "y, ~ + 1"))]);
            it.attrs = vec![Instr::new("map", None, "T as {}"), Instr::new("owned_into_existing", None, "T as {}")];
            it
        }
        "flat" => {
            let mut it = Item::new_struct("S", Shape::Named, vec![Field::named("a", "i32"), Field::named("b", "i32").with(Instr::new("child", None, "p")), Field::named("c", "i32").with(Instr::new("child", None, "p.q"))]);
            it.attrs = vec![Instr::new("map", None, "T"), Instr::new("child_parents", None, "p: P, p.q: Q"), Instr::new("ghosts", None, "p@g: {1}")];
            it
        }
        "parent" => {
            let mut it = Item::new_struct("S", Shape::Named, vec![Field::named("a", "i32"), Field { attrs: vec![Instr::word("parent")], name: Some("b".into()), ty: "B".into() }, Field { attrs: vec![Instr::new("parent", None, "cx, [map(cz)] cy")], name: Some("c".into()), ty: "C".into() }]);
            it.attrs = vec![Instr::new("from", None, "T"), Instr::new("into_existing", None, "T")];
            it
        }
        "enum" => {
            let vs = vec![
                Variant { attrs: vec![], name: "A".into(), shape: Shape::Unit, fields: vec![] },
                Variant { attrs: vec![Instr::new("map", None, "Bx")], name: "B".into(), shape: Shape::Tuple, fields: vec![Field::pos("i32"), Field::pos("i32")] },
                Variant { attrs: vec![], name: "C".into(), shape: Shape::Named, fields: vec![Field::named("x", "i32").with(Instr::new("map", None, "y"))] },
            ];
            let mut it = Item::new_enum("S", vs);
            it.attrs = vec![Instr::new("map", None, "T"), Instr::new("try_map", None, "U, Er")];
            it
        }
        "enum-prim" => {
            let vs = vec![
                Variant { attrs: vec![Instr::new("literal", None, "1")], name: "A".into(), shape: Shape::Unit, fields: vec![] },
                Variant { attrs: vec![Instr::new("literal", None, "2")], name: "B".into(), shape: Shape::Unit, fields: vec![] },
                Variant { attrs: vec![Instr::new("pattern", None, "_"), Instr::new("into", None, "{ 3 }")], name: "C".into(), shape: Shape::Unit, fields: vec![] },
            ];
            let mut it = Item::new_enum("S", vs);
            it.attrs = vec![Instr::new("map", None, "T| _ => panic!()")];
            it
        }
        _ => unreachable!(),
    }
}

pub const HOSTS: &[&str] = &["named", "tuple-hint", "flat", "parent", "enum", "enum-prim"];

fn n_members(it: &Item) -> usize {
    match &it.body {
        Body::Struct { fields, .. } => fields.len(),
        Body::Enum { variants } => variants.len(),
        Body::Union { fields } => fields.len(),
    }
}

fn mk_instr(txt: &str) -> Instr {
    // "o2o:" prefix forces the #[o2o(..)] form (names without a bare form pick it anyway)
    let (force_o2o, txt) = match txt.strip_prefix("o2o:") {
        Some(t) => (true, t),
        None => (false, txt),
    };
    let (name, body, parens) = match txt.find('(') {
        Some(i) => (&txt[..i], &txt[i + 1..txt.len() - 1], true),
        None => (txt, "", false),
    };
    let mut i = Instr::new(name, None, body);
    i.parens = parens;
    if force_o2o {
        i.form = crate::item::Form::O2o;
    }
    i
}

/// inject fault `f` at position `pos` (type level: index into the attribute list, 0..=len; member level: member index)
pub fn inject(it: &mut Item, f: &Fault, pos: usize) {
    match f.level {
        Level::Type => {
            let p = pos.min(it.attrs.len());
            for (k, a) in f.add.iter().enumerate() {
                it.attrs.insert(p + k, mk_instr(a));
            }
        }
        Level::Member => {
            let add: Vec<Instr> = f.add.iter().map(|a| mk_instr(a)).collect();
            match &mut it.body {
                Body::Struct { fields, .. } | Body::Union { fields } => fields[pos].attrs.extend(add),
                Body::Enum { variants } => variants[pos].attrs.extend(add),
            }
        }
    }
}

pub fn positions(it: &Item, f: &Fault) -> usize {
    match f.level {
        Level::Type => it.attrs.len() + 1,
        Level::Member => n_members(it),
    }
}

pub struct FaultCase {
    pub host: &'static str,
    pub item: Item,
    pub faults: Vec<(&'static Fault, usize)>,
    pub tags: Vec<String>,
}

/// `k` faults (k = 0: the fault-free host) at every admissible position
/// valid trait instructions for a further counterpart, placed before or after the host's own ("whatever valid
/// instructions surround it")
const NOISE: &[&str] = &["into(W)", "from(W)", "owned_into(W| return Default::default())", "try_from_ref(W, Er)", "ref_into_existing(W)"];

pub fn gen(ctx: &mut Ctx, k: usize) -> Option<FaultCase> {
    let host_name = HOSTS[ctx.choose(HOSTS.len())];
    let mut it = host(host_name);
    // surrounding valid instructions
    let noise = ctx.choose(1 + 2 * NOISE.len());
    let mut noise_tag = String::from("noise=none");
    if noise > 0 {
        let (ni, first) = ((noise - 1) / 2, (noise - 1) % 2 == 0);
        if it.is_enum() && NOISE[ni].contains("existing") {
            return ctx.reject();
        }
        let body = if host_name == "enum-prim" { NOISE[ni].replace("W)", "W| _ => panic!())").replace("W, Er)", "W, Er| _ => panic!())") } else { NOISE[ni].to_string() };
        if host_name == "enum-prim" && body.contains("return") {
            return ctx.reject();
        }
        let ins = mk_instr(&body);
        if first {
            it.attrs.insert(0, ins);
        } else {
            it.attrs.push(ins);
        }
        noise_tag = format!("noise={}@{}", NOISE[ni], if first { "first" } else { "last" });
    }
    // parameters on the host's own first trait instruction: the rules must hold whatever parameters the trait
    // instructions carry (seed C15-03: `..update` on an Into instruction switched the child_parents rule off)
    let params = ctx.choose(4);
    let params_tag = format!("params={}", ["none", "into-update", "vars", "attribute"][params]);
    match params {
        1 => {
            let i0 = it.attrs.iter().position(|a| matches!(a.name.as_str(), "map" | "into") && !a.body.contains('|'));
            match i0 {
                Some(i) if !it.is_enum() => {
                    let body = it.attrs[i].body.clone();
                    if it.attrs[i].name == "map" {
                        it.attrs[i] = Instr::new("from", None, &body);
                        it.attrs.insert(i + 1, Instr::new("into", None, &format!("{}| ..Default::default()", body)));
                    } else {
                        it.attrs[i] = Instr::new("into", None, &format!("{}| ..Default::default()", body));
                    }
                }
                _ => return ctx.reject(),
            }
        }
        2 | 3 => {
            let p = if params == 2 { "vars(zz: { 1 })" } else { "attribute(inline)" };
            let a = &mut it.attrs[0];
            if !crate::model::appl(&a.name).is_some() {
                return ctx.reject();
            }
            a.body = match a.body.split_once("| ") {
                Some((x, rest)) => format!("{}| {}, {}", x, p, rest),
                None => format!("{}| {}", a.body, p),
            };
        }
        _ => {}
    }
    let base_with_noise = it.clone();
    let mut faults = vec![];
    let mut tags = vec![format!("host={}", host_name), format!("faults={}", k), noise_tag, params_tag];
    let mut last = 0;
    for _ in 0..k {
        // faults are chosen in non-decreasing catalogue order (a pair is a set), positions independently
        let fi = last + ctx.choose(FAULTS.len() - last);
        last = fi;
        let f = &FAULTS[fi];
        if !f.hosts.contains(&host_name) {
            return ctx.reject();
        }
        if faults.iter().any(|(g, _): &(&Fault, usize)| g.id == f.id) {
            return ctx.reject();
        }
        let np = positions(&base_with_noise, f);
        let pos = ctx.choose(np);
        if f.id == "member-repeat-unterminated" && pos == 0 {
            return ctx.reject(); // the unterminated block starts on member 0; a second repeat on the same member is no conflict
        }
        faults.push((f, pos));
    }
    // the member whose name the mismatch fault removes must stay a plain mapped member (a parent/ghost member is exempt)
    if faults.iter().any(|(f, _)| f.id == "tuple-named-mismatch") && faults.iter().any(|(f, p)| f.level == Level::Member && *p == 1 && f.add.iter().any(|a| a.starts_with("parent") || a.starts_with("ghost"))) {
        return ctx.reject();
    }
    // "no trait instruction" removes the instructions most other rules are relative to: pair it only with faults
    // that do not depend on (or add) trait instructions
    if faults.len() > 1 && faults.iter().any(|(f, _)| f.id == "no-trait-instr") {
        let independent = |c: &str| matches!(c, "no trait instruction" | "instruction dedicated to an unknown counterpart" | "duplicate default instruction" | "misplaced instruction" | "misnamed instruction");
        if !faults.iter().all(|(f, _)| independent(f.class)) {
            return ctx.reject();
        }
    }
    // apply member-level first (positions refer to the host's members), then type-level from the last position down
    let mut order: Vec<usize> = (0..faults.len()).collect();
    order.sort_by_key(|i| (faults[*i].0.level == Level::Type, std::cmp::Reverse(faults[*i].1)));
    // structural edits first (they may remove instructions), then the additions
    for (f, _) in &faults {
        if let Some(e) = f.edit {
            e(&mut it);
        }
    }
    for &i in &order {
        let (f, pos) = faults[i];
        inject(&mut it, f, pos);
    }
    for (f, pos) in &faults {
        tags.push(format!("fault={}", f.id));
        tags.push(format!("class={}", f.class));
        tags.push(format!("{}@{}", f.id, pos));
        if f.parse_stage {
            tags.push("parse-stage".into());
        }
    }
    Some(FaultCase { host: host_name, item: it, faults, tags })
}

pub fn names_problem(msgs: &[String], f: &Fault) -> bool {
    msgs.iter().any(|m| {
        let m = m.to_lowercase();
        f.salient.iter().any(|set| set.iter().all(|w| m.contains(w)))
    })
}
