//! C09: enums mapped to primitive values through #[literal] / #[pattern] - first-match reference model over the
//! whole primitive domain.

use crate::explore::Ctx;
use std::fmt::Write;

#[derive(Clone, Debug, PartialEq)]
pub enum Arm {
    Literal(i64),
    Range(i64, i64, i64), // a..=b, into value
    Or(i64, i64, i64),    // a | b, into value
    Wild(i64),            // _, into value
    /// `#[pattern(_)] #[into({f0})] Other(#[from(@)] prim)`: catch-all carrying the value (README)
    CatchAll,
    /// variant that exists only on this side: Into gives the value, From never produces it
    Ghost(i64),
    /// guarded binding pattern `n if n % 2 == 0`, into value
    Guard(i64),
}

#[derive(Clone, Debug)]
pub struct PCase {
    pub prim: &'static str, // "u8" | "i8" | "str"
    /// second primitive counterpart (i16) with a dedicated literal per variant: (value, written before the default instruction?)
    pub second: Vec<Option<(i64, bool)>>,
    /// the dedicated instruction for the second counterpart is a `#[pattern(i16| v)]` + `#[into(i16| { v })]` pair instead
    /// of a literal: a literal for one counterpart and a pattern for another on the same variant (seed C09-09)
    pub second_pattern: Vec<bool>,
    pub arms: Vec<Arm>,
    pub kinds: usize, // 0 = map_owned (+try), 1 = map (owned + ref, + try), 2 = from_owned only (patterns need no into)
    /// literal variants carry a payload field that From fills from its #[ghost({..})] default (seed C09-04)
    pub lit_payload: bool,
    /// default literals are written as named constants (`#[literal(K0)]`): a literal instruction takes any constant
    /// expression usable as a pattern, not only literal tokens (seed C09-08)
    pub lit_const: bool,
    /// the catch-all variant binds the value (`#[pattern(n)]`) and its payload reads the binding (`n` owned, `*n` by
    /// reference) instead of `@` - a binding made while matching `&T` is a reference (seed C09-10)
    pub bind: bool,
    /// the pattern dedicated to the second counterpart is a named constant (`#[pattern(i16| KS0)]`): a dedicated
    /// pattern made of paths only is still dedicated (seed C09-11)
    pub second_const: bool,
    pub tags: Vec<String>,
}

const U8_PTS: [i64; 7] = [0, 1, 2, 127, 128, 254, 255];
const I8_PTS: [i64; 5] = [-128, -1, 0, 1, 127];
const STRS: [&str; 4] = ["", "a", "b", "ab"];

pub fn gen(ctx: &mut Ctx, max_variants: usize) -> Option<PCase> {
    let prim = ["u8", "i8", "str"][ctx.choose(3)];
    let pts: &[i64] = match prim {
        "u8" => &U8_PTS,
        "i8" => &I8_PTS,
        _ => &[0, 1, 2, 3],
    };
    let n = 1 + ctx.choose(max_variants);
    let kinds = ctx.choose(3);
    if prim == "str" && kinds == 1 {
        return ctx.reject(); // the README shows string counterparts with owned kinds only (`match &&str` against string literals does not type-check in Rust)
    }
    let mut arms = vec![];
    for _ in 0..n {
        let a = match ctx.choose(7) {
            0 => Arm::Literal(pts[ctx.choose(pts.len())]),
            1 => {
                if prim == "str" {
                    return ctx.reject();
                }
                let (i, j) = (ctx.choose(pts.len()), ctx.choose(pts.len()));
                if i > j {
                    return ctx.reject();
                }
                Arm::Range(pts[i], pts[j], pts[ctx.choose(pts.len())])
            }
            2 => {
                let (i, j) = (ctx.choose(pts.len()), ctx.choose(pts.len()));
                Arm::Or(pts[i], pts[j], pts[ctx.choose(pts.len())])
            }
            3 => Arm::Wild(pts[ctx.choose(pts.len())]),
            4 => Arm::CatchAll,
            5 => Arm::Ghost(pts[ctx.choose(pts.len())]),
            _ => {
                if prim == "str" {
                    return ctx.reject();
                }
                Arm::Guard(pts[ctx.choose(pts.len())])
            }
        };
        arms.push(a);
    }
    // a second counterpart type (i16): every variant maps to it through a dedicated #[literal(i16| v)] - or, when it
    // has none, through its default literal
    let mut second = vec![];
    let mut second_pattern = vec![];
    if prim != "str" && kinds == 0 && arms.iter().all(|a| matches!(a, Arm::Literal(_))) && ctx.flag() {
        for (i, _) in arms.iter().enumerate() {
            let c = ctx.choose(4);
            second.push(match c {
                0 => None,
                1 => Some((300 + i as i64, false)),
                _ => Some((300 + i as i64, true)),
            });
            second_pattern.push(c == 3);
        }
        // the default literals must be pairwise distinct and valid for both types, else the i16 match has unreachable / out-of-range arms
        let lits: Vec<i64> = arms.iter().filter_map(|a| if let Arm::Literal(k) = a { Some(*k) } else { None }).collect();
        let mut d = lits.clone();
        d.sort();
        d.dedup();
        if d.len() != lits.len() || lits.iter().any(|k| *k < 0 || *k > 127) {
            return ctx.reject();
        }
    }
    if kinds == 2 && arms.iter().any(|a| matches!(a, Arm::Ghost(_))) {
        return ctx.reject(); // a ghost variant only matters for Into
    }
    if arms.iter().all(|a| matches!(a, Arm::Ghost(_))) {
        return ctx.reject();
    }
    let mut tags = vec![format!("prim={}", prim), format!("n={}", n), format!("kinds={}", ["map_owned", "map", "from_owned"][kinds])];
    for a in &arms {
        tags.push(format!("arm={}", match a { Arm::Literal(_) => "literal", Arm::Range(..) => "range", Arm::Or(..) => "or", Arm::Wild(_) => "wild", Arm::CatchAll => "catch-all", Arm::Ghost(_) => "ghost", Arm::Guard(_) => "guard" }));
    }
    let lits: Vec<i64> = arms.iter().filter_map(|a| if let Arm::Literal(k) = a { Some(*k) } else { None }).collect();
    let mut dl = lits.clone();
    dl.sort();
    dl.dedup();
    tags.push(format!("literals={}", if dl.len() == lits.len() { "distinct" } else { "overlapping" }));
    tags.sort();
    tags.dedup();
    if !second.is_empty() {
        tags.push("two-counterparts".into());
    }
    let lit_payload = arms.iter().any(|a| matches!(a, Arm::Literal(_))) && ctx.flag();
    if lit_payload {
        tags.push("literal-variant-with-payload".into());
    }
    // (a typed constant cannot be the default literal of two primitive counterparts at once)
    // (... and a constant pattern does not match through a reference the way a literal pattern does: owned kinds only)
    let lit_const = kinds != 1 && second.is_empty() && arms.iter().any(|a| matches!(a, Arm::Literal(_))) && ctx.flag();
    if lit_const {
        tags.push("literal-as-constant".into());
    }
    if second_pattern.iter().any(|x| *x) {
        tags.push("literal+dedicated-pattern".into());
    }
    let bind = arms.iter().any(|a| *a == Arm::CatchAll) && ctx.flag();
    if bind {
        tags.push("catch-all=binding".into());
    }
    let second_const = second_pattern.iter().any(|x| *x) && ctx.flag();
    if second_const {
        tags.push("dedicated-pattern=constant".into());
    }
    Some(PCase { prim, second, second_pattern, arms, kinds, lit_payload, lit_const, bind, second_const, tags })
}

impl PCase {
    fn lit(&self, v: i64) -> String {
        if self.prim == "str" { format!("\"{}\"", STRS[v as usize]) } else { v.to_string() }
    }
    fn ty(&self) -> &'static str {
        if self.prim == "str" { "StaticStr" } else { self.prim }
    }
    fn domain(&self) -> Vec<i64> {
        match self.prim {
            "u8" => (0..=255).collect(),
            "i8" => (-128..=127).collect(),
            _ => vec![0, 1, 2, 3, 4], // 4 = a string outside every literal/pattern ("zz")
        }
    }
    fn dom_lit(&self, v: i64) -> String {
        if self.prim == "str" { if v == 4 { "\"zz\"".into() } else { self.lit(v) } } else { format!("{}{}", v, self.prim) }
    }
    pub fn nontrivial(&self) -> bool {
        self.arms.len() > 1
    }
    /// first matching variant (declaration order) or None = default case
    pub fn model_from(&self, v: i64) -> Option<usize> {
        for (i, a) in self.arms.iter().enumerate() {
            let m = match a {
                Arm::Literal(k) => *k == v,
                Arm::Range(a, b, _) => *a <= v && v <= *b,
                Arm::Or(a, b, _) => *a == v || *b == v,
                Arm::Wild(_) | Arm::CatchAll => true,
                Arm::Ghost(_) => false,
                Arm::Guard(_) => v % 2 == 0,
            };
            if m {
                return Some(i);
            }
        }
        None
    }
    pub fn item_text(&self, fallible: bool) -> String {
        let ty = self.ty();
        let mut o = String::new();
        let (e, dflt_from) = if fallible { (", Er", "_ => Err(Er(7))?") } else { ("", "_ => S::Dflt") };
        let t = if fallible { "try_" } else { "" };
        match self.kinds {
            0 => {
                let _ = writeln!(o, "#[{t}from_owned({ty}{e}| {dflt_from})]\n#[owned_{t}into({ty}{e})]");
                if !self.second.is_empty() {
                    let _ = writeln!(o, "#[{t}from_owned(i16{e}| {dflt_from})]\n#[owned_{t}into(i16{e})]");
                }
            }
            1 => {
                let _ = writeln!(o, "#[{t}from({ty}{e}| {dflt_from})]\n#[{t}into({ty}{e})]");
            }
            _ => {
                let _ = writeln!(o, "#[{t}from_owned({ty}{e}| {dflt_from})]");
            }
        }
        let _ = writeln!(o, "enum {} {{", if fallible { "Sf" } else { "S" });
        let needs_into = self.kinds != 2;
        for (i, a) in self.arms.iter().enumerate() {
            let vn = format!("V{}", i);
            match a {
                Arm::Literal(k) => {
                    let vn = if self.lit_payload { format!("{}(#[ghost({{ 5 }})] i32)", vn) } else { vn };
                    let lk = if self.lit_const { format!("K{}", i) } else { self.lit(*k) };
                    match self.second.get(i).cloned().flatten() {
                        // (the literal is dedicated to the first counterpart: a default literal would apply to i16 too, next to the pattern)
                        Some((v, _)) if self.second_pattern[i] => {
                            let pv = if self.second_const { format!("KS{}", i) } else { v.to_string() };
                            let _ = writeln!(o, "    #[pattern(i16| {pv})] #[into(i16| {{ {v} }})] #[literal({}| {})] {},", ty, lk, vn);
                        }
                        Some((v, true)) => { let _ = writeln!(o, "    #[literal(i16| {})] #[literal({})] {},", v, lk, vn); }
                        Some((v, false)) => { let _ = writeln!(o, "    #[literal({})] #[literal(i16| {})] {},", lk, v, vn); }
                        None => { let _ = writeln!(o, "    #[literal({})] {},", lk, vn); }
                    }
                }
                Arm::Range(a, b, v) => {
                    let _ = writeln!(o, "    #[pattern({}..={})] {}{},", a, b, if needs_into { format!("#[into({{ {} }})] ", self.lit(*v)) } else { String::new() }, vn);
                }
                Arm::Or(a, b, v) => {
                    let _ = writeln!(o, "    #[pattern({} | {})] {}{},", self.lit(*a), self.lit(*b), if needs_into { format!("#[into({{ {} }})] ", self.lit(*v)) } else { String::new() }, vn);
                }
                Arm::Guard(v) => {
                    let _ = writeln!(o, "    #[pattern(n if n % 2 == 0)] {}{},", if needs_into { format!("#[into({{ {} }})] ", self.lit(*v)) } else { String::new() }, vn);
                }
                Arm::Wild(v) => {
                    let _ = writeln!(o, "    #[pattern(_)] {}{},", if needs_into { format!("#[into({{ {} }})] ", self.lit(*v)) } else { String::new() }, vn);
                }
                Arm::CatchAll => {
                    let into = if needs_into { if self.kinds == 1 { "#[owned_into({ f0 })] #[ref_into({ *f0 })] " } else { "#[into({ f0 })] " } } else { "" };
                    let from = if self.kinds == 1 { "#[from_owned(@)] #[from_ref(*@)] " } else { "#[from(@)] " };
                    let (pat, from) = if self.bind { ("n", from.replace('@', "n")) } else { ("_", from.to_string()) };
                    let _ = writeln!(o, "    #[pattern({})] {}{}({}{}),", pat, into, vn, from, ty);
                }
                Arm::Ghost(v) => {
                    let _ = writeln!(o, "    #[ghost({{ {} }})] {},", self.lit(*v), vn);
                }
            }
        }
        if !fallible {
            // the infallible default case needs a value: a ghost variant that From never produces otherwise
            let _ = writeln!(o, "    #[ghost({{ {} }})] Dflt,", self.lit(if self.prim == "str" { 0 } else { 2 }));
        }
        o.push_str("}\n");
        o
    }
    pub fn render_module(&self) -> String {
        let mut o = String::from("#![allow(unused, non_camel_case_types, unreachable_patterns, clippy::all)]\nuse crate::common::*;\ntype StaticStr = &'static str;\n");
        if self.lit_const {
            for (i, a) in self.arms.iter().enumerate() {
                if let Arm::Literal(k) = a {
                    let _ = writeln!(o, "pub const K{}: {} = {};", i, self.ty(), self.lit(*k));
                }
            }
        }
        if self.second_const {
            for (i, x) in self.second.iter().enumerate() {
                if let (Some((v, _)), true) = (x, self.second_pattern[i]) {
                    let _ = writeln!(o, "pub const KS{}: i16 = {};", i, v);
                }
            }
        }
        let _ = writeln!(o, "#[derive(Clone, Debug, PartialEq, o2o::o2o)]\n{}", self.item_text(false));
        let _ = writeln!(o, "#[derive(Clone, Debug, PartialEq, o2o::o2o)]\n{}", self.item_text(true));
        let ty = self.ty();
        let has_ref = self.kinds == 1;
        let has_into = self.kinds != 2;
        // compact oracle: expected (variant index, payload) per domain value as a table, one loop over the domain
        let dom = self.domain();
        let exp: Vec<(i64, String)> = dom
            .iter()
            .map(|v| match self.model_from(*v) {
                Some(i) => (i as i64, if self.arms[i] == Arm::CatchAll { self.dom_lit(*v) } else { self.dom_lit(if self.prim == "str" { 0 } else { 0 }) }),
                None => (255, self.dom_lit(0)),
            })
            .collect();
        let zero = self.dom_lit(0);
        let pl = |a: &Arm| if self.lit_payload && matches!(a, Arm::Literal(_)) { "(..)" } else { "" };
        let arms_s: String = self.arms.iter().enumerate().map(|(i, a)| if *a == Arm::CatchAll { format!("S::V{i}(x) => ({i}, *x), ") } else { format!("S::V{i}{} => ({i}, {zero}), ", pl(a)) }).collect();
        let arms_sf: String = self.arms.iter().enumerate().map(|(i, a)| if *a == Arm::CatchAll { format!("Ok(Sf::V{i}(x)) => ({i}, *x), ") } else { format!("Ok(Sf::V{i}{}) => ({i}, {zero}), ", pl(a)) }).collect();
        let _ = writeln!(o, "fn sidx(s: &S) -> (i64, {ty}) {{ match s {{ {arms_s}S::Dflt => (255, {zero}) }} }}");
        let _ = writeln!(o, "fn sfidx(s: &Result<Sf, Er>) -> (i64, {ty}) {{ match s {{ {arms_sf}Err(Er(7)) => (255, {zero}), Err(_) => (254, {zero}) }} }}");
        let _ = writeln!(o, "const DOM: [{ty}; {}] = [{}];", dom.len(), dom.iter().map(|v| self.dom_lit(*v)).collect::<Vec<_>>().join(", "));
        let _ = writeln!(o, "const EXP: [(i64, {ty}); {}] = [{}];", dom.len(), exp.iter().map(|(i, p)| format!("({}, {})", i, p)).collect::<Vec<_>>().join(", "));
        let _ = writeln!(o, "pub fn run(r: &mut Rec) {{");
        let _ = writeln!(o, "  for n in 0..DOM.len() {{ let p: {ty} = DOM[n];");
        let _ = writeln!(o, "    r.eq(\"from_owned\", &(n, sidx(&<S as From<{ty}>>::from(p))), &(n, EXP[n])); r.eq(\"try_from_owned\", &(n, sfidx(&<Sf as TryFrom<{ty}>>::try_from(p))), &(n, EXP[n]));");
        if has_ref {
            let _ = writeln!(o, "    r.eq(\"from_ref\", &(n, sidx(&<S as From<&{ty}>>::from(&p))), &(n, EXP[n])); r.eq(\"try_from_ref\", &(n, sfidx(&<Sf as TryFrom<&{ty}>>::try_from(&p))), &(n, EXP[n]));");
        }
        let _ = writeln!(o, "  }}");
        if !self.second.is_empty() {
            // the second counterpart: dedicated literal where given, else the default one; everything else -> default case
            for (i, a) in self.arms.iter().enumerate() {
                let k = if let Arm::Literal(k) = a { *k } else { 0 };
                let v2 = self.second[i].map(|x| x.0).unwrap_or(k);
                let pv = if self.lit_payload { "(5)" } else { "" };
                let _ = writeln!(o, "  r.eq(\"from_owned/i16 V{i}\", &<S as From<i16>>::from({v2}i16), &S::V{i}{pv}); r.eq(\"owned_into/i16 V{i}\", &<S as Into<i16>>::into(S::V{i}{pv}), &{v2}i16);");
                let _ = writeln!(o, "  r.eq(\"try_from_owned/i16 V{i}\", &<Sf as TryFrom<i16>>::try_from({v2}i16), &Ok::<Sf, Er>(Sf::V{i}{pv})); r.eq(\"try_owned_into/i16 V{i}\", &<Sf as TryInto<i16>>::try_into(Sf::V{i}{pv}), &Ok::<i16, Er>({v2}i16));");
                if self.second[i].is_some() {
                    // the default literal of a variant that has a dedicated one is NOT a literal of the second type
                    let taken = (0..self.arms.len()).any(|j| { let kj = if let Arm::Literal(kj) = &self.arms[j] { *kj } else { -1 }; self.second[j].map(|x| x.0).unwrap_or(kj) == k });
                    if !taken {
                        let _ = writeln!(o, "  r.eq(\"from_owned/i16 default-case {k}\", &<S as From<i16>>::from({k}i16), &S::Dflt);");
                    }
                }
            }
        }
        if has_into {
            for (i, a) in self.arms.iter().enumerate() {
                let (sv, sfv, exp) = match a {
                    Arm::Literal(k) => { let pv = if self.lit_payload { "(5)" } else { "" }; (format!("S::V{}{}", i, pv), format!("Sf::V{}{}", i, pv), self.lit(*k)) }
                    Arm::Range(_, _, v) | Arm::Or(_, _, v) | Arm::Wild(v) | Arm::Ghost(v) | Arm::Guard(v) => (format!("S::V{}", i), format!("Sf::V{}", i), self.lit(*v)),
                    Arm::CatchAll => {
                        let x = self.dom_lit(if self.prim == "str" { 3 } else { 77 });
                        (format!("S::V{}({})", i, x), format!("Sf::V{}({})", i, x), x)
                    }
                };
                let _ = writeln!(o, "  {{ let e: {ty} = {exp}; r.eq(\"owned_into/V{i}\", &<S as Into<{ty}>>::into({sv}), &e); r.eq(\"try_owned_into/V{i}\", &<Sf as TryInto<{ty}>>::try_into({sfv}), &Ok::<{ty}, Er>(e));{} }}", if has_ref { format!(" r.eq(\"ref_into/V{i}\", &<&S as Into<{ty}>>::into(&{sv}), &e); r.eq(\"try_ref_into/V{i}\", &<&Sf as TryInto<{ty}>>::try_into(&{sfv}), &Ok::<{ty}, Er>(e));") } else { String::new() });
                // round trip: with pairwise distinct literals, variant -> primitive -> variant is the identity
                if let Arm::Literal(k) = a {
                    if self.model_from(*k) == Some(i) {
                        let _ = writeln!(o, "  {{ let p: {ty} = <S as Into<{ty}>>::into({sv}); r.eq(\"roundtrip/V{i}\", &<S as From<{ty}>>::from(p), &{sv}); }}");
                    }
                }
            }
        }
        o.push_str("}\n");
        o
    }
}
