//! Reference model tables, transcribed from README.md ("Traits and o2o trait instructions", lines 178-264) and the
//! property statements - NOT from attr.rs / expand.rs.

#[derive(Debug, Clone, Copy, PartialEq, Eq, Hash, PartialOrd, Ord)]
pub enum Dir {
    FromOwned,
    FromRef,
    OwnedInto,
    RefInto,
    OwnedIntoExisting,
    RefIntoExisting,
}
use Dir::*;

pub const DIRS: [Dir; 6] = [FromOwned, FromRef, OwnedInto, RefInto, OwnedIntoExisting, RefIntoExisting];

impl Dir {
    pub fn is_from(self) -> bool {
        matches!(self, FromOwned | FromRef)
    }
    pub fn is_ref(self) -> bool {
        matches!(self, FromRef | RefInto | RefIntoExisting)
    }
    pub fn is_existing(self) -> bool {
        matches!(self, OwnedIntoExisting | RefIntoExisting)
    }
    pub fn is_into(self) -> bool {
        matches!(self, OwnedInto | RefInto)
    }
    /// the `into` kind corresponding to an `into_existing` kind (C05: "the corresponding `into` instruction")
    pub fn into_of_existing(self) -> Option<Dir> {
        match self {
            OwnedIntoExisting => Some(OwnedInto),
            RefIntoExisting => Some(RefInto),
            _ => None,
        }
    }
}

#[derive(Debug, Clone, Copy, PartialEq, Eq, Hash, PartialOrd, Ord)]
pub struct Kind {
    pub dir: Dir,
    pub fallible: bool,
}

impl Kind {
    pub fn all() -> Vec<Kind> {
        let mut v = Vec::new();
        for f in [false, true] {
            for d in DIRS {
                v.push(Kind { dir: d, fallible: f });
            }
        }
        v
    }
    /// the basic (non-shortcut) instruction name for this kind (README:192-230; the fallible spellings are the ones
    /// the macro crate registers: owned_try_into, ref_try_into, try_from_owned, ...)
    pub fn basic_name(self) -> &'static str {
        match (self.dir, self.fallible) {
            (FromOwned, false) => "from_owned",
            (FromRef, false) => "from_ref",
            (OwnedInto, false) => "owned_into",
            (RefInto, false) => "ref_into",
            (OwnedIntoExisting, false) => "owned_into_existing",
            (RefIntoExisting, false) => "ref_into_existing",
            (FromOwned, true) => "try_from_owned",
            (FromRef, true) => "try_from_ref",
            (OwnedInto, true) => "owned_try_into",
            (RefInto, true) => "ref_try_into",
            (OwnedIntoExisting, true) => "owned_try_into_existing",
            (RefIntoExisting, true) => "ref_try_into_existing",
        }
    }
    pub fn tag(self) -> String {
        format!("kind={}", self.basic_name())
    }
}

/// The 12 infallible trait-instruction names and their kinds (README table 232-241), then "exactly the same
/// shortcuts apply to fallible conversions".
pub const INFALLIBLE_NAMES: [(&str, &[Dir]); 12] = [
    ("from_owned", &[FromOwned]),
    ("from_ref", &[FromRef]),
    ("owned_into", &[OwnedInto]),
    ("ref_into", &[RefInto]),
    ("owned_into_existing", &[OwnedIntoExisting]),
    ("ref_into_existing", &[RefIntoExisting]),
    ("map", &[FromOwned, FromRef, OwnedInto, RefInto]),
    ("from", &[FromOwned, FromRef]),
    ("into", &[OwnedInto, RefInto]),
    ("map_owned", &[FromOwned, OwnedInto]),
    ("map_ref", &[FromRef, RefInto]),
    ("into_existing", &[OwnedIntoExisting, RefIntoExisting]),
];

pub const FALLIBLE_NAMES: [(&str, &[Dir]); 12] = [
    ("try_from_owned", &[FromOwned]),
    ("try_from_ref", &[FromRef]),
    ("owned_try_into", &[OwnedInto]),
    ("ref_try_into", &[RefInto]),
    ("owned_try_into_existing", &[OwnedIntoExisting]),
    ("ref_try_into_existing", &[RefIntoExisting]),
    ("try_map", &[FromOwned, FromRef, OwnedInto, RefInto]),
    ("try_from", &[FromOwned, FromRef]),
    ("try_into", &[OwnedInto, RefInto]),
    ("try_map_owned", &[FromOwned, OwnedInto]),
    ("try_map_ref", &[FromRef, RefInto]),
    ("try_into_existing", &[OwnedIntoExisting, RefIntoExisting]),
];

/// M_appl: instruction name -> (kinds, fallible). None = not a trait/mapping instruction name.
pub fn appl(name: &str) -> Option<(Vec<Dir>, bool)> {
    for (n, ds) in INFALLIBLE_NAMES {
        if n == name {
            return Some((ds.to_vec(), false));
        }
    }
    for (n, ds) in FALLIBLE_NAMES {
        if n == name {
            return Some((ds.to_vec(), true));
        }
    }
    None
}

pub fn all_trait_names() -> Vec<&'static str> {
    INFALLIBLE_NAMES.iter().map(|x| x.0).chain(FALLIBLE_NAMES.iter().map(|x| x.0)).collect()
}

/// member-level mapping names: the trait names minus the fallible into_existing ones (21)
pub fn member_map_names() -> Vec<&'static str> {
    all_trait_names().into_iter().filter(|n| !matches!(*n, "owned_try_into_existing" | "ref_try_into_existing" | "try_into_existing")).collect()
}

pub fn is_basic(name: &str) -> bool {
    appl(name).map_or(false, |(d, _)| d.len() == 1)
}

/// ghost / ghosts applicability: `ghost` = `ghost_owned` + `ghost_ref` (C12)
pub fn ghost_appl(name: &str) -> Option<(bool /*owned*/, bool /*ref*/)> {
    match name {
        "ghost" | "ghosts" => Some((true, true)),
        "ghost_owned" | "ghosts_owned" => Some((true, false)),
        "ghost_ref" | "ghosts_ref" => Some((false, true)),
        _ => None,
    }
}

/// M_hdr: what the impl for a kind looks like (README:192-230)
pub struct Hdr {
    pub trait_path: &'static [&'static str],
    pub method: &'static str,
    pub self_is_ref: bool,
    pub arg_is_ref: bool,
    pub self_is_deriving: bool, // Self type is the deriving type (else: counterpart)
    pub has_error: bool,
}

pub fn hdr(k: Kind) -> Hdr {
    let (tp, m): (&[&str], &str) = match (k.dir, k.fallible) {
        (FromOwned | FromRef, false) => (&["::", "core", "convert", "From"], "from"),
        (FromOwned | FromRef, true) => (&["::", "core", "convert", "TryFrom"], "try_from"),
        (OwnedInto | RefInto, false) => (&["::", "core", "convert", "Into"], "into"),
        (OwnedInto | RefInto, true) => (&["::", "core", "convert", "TryInto"], "try_into"),
        (OwnedIntoExisting | RefIntoExisting, false) => (&["o2o", "traits", "IntoExisting"], "into_existing"),
        (OwnedIntoExisting | RefIntoExisting, true) => (&["o2o", "traits", "TryIntoExisting"], "try_into_existing"),
    };
    Hdr {
        trait_path: tp,
        method: m,
        self_is_ref: !k.dir.is_from() && k.dir.is_ref(),
        arg_is_ref: k.dir.is_from() && k.dir.is_ref(),
        self_is_deriving: true,
        has_error: k.fallible,
    }
}

/// M_prec (C05): which of a member's mapping instructions is effective for (kind, counterpart).
/// `cands` = (index, dirs, fallible, dedicated-to) of the member's mapping instructions;
/// ghosts are handled by the caller (a ghost applicable to the kind beats them all).
pub fn winner(cands: &[(usize, Vec<Dir>, bool, Option<String>)], k: Kind, counterpart: &str) -> Option<usize> {
    let mut levels: Vec<(Dir, bool)> = vec![(k.dir, k.fallible)];
    if k.fallible {
        levels.push((k.dir, false));
    }
    if let Some(into) = k.dir.into_of_existing() {
        levels.push((into, k.fallible));
        if k.fallible {
            levels.push((into, false));
        }
    }
    for (d, f) in levels {
        // dedicated to this counterpart first
        for (i, ds, cf, ded) in cands {
            if *cf == f && ds.contains(&d) && ded.as_deref() == Some(counterpart) {
                return Some(*i);
            }
        }
        for (i, ds, cf, ded) in cands {
            if *cf == f && ds.contains(&d) && ded.is_none() {
                return Some(*i);
            }
        }
    }
    None
}
