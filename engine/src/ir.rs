//! Structural view of generated impls, read through a real parser (syn 2 "full"), used by C04/C08/C17/C20.
#![cfg(feature = "b1")]

use crate::xp::canon;
use proc_macro2::TokenStream;
use quote::ToTokens;
use syn2 as syn;

#[derive(Debug, Clone)]
pub struct MethodIR {
    pub attrs: Vec<String>, // outer attributes of the fn (canonical token text of the whole `#[..]`)
    pub name: String,
    pub inputs: Vec<String>,   // canonical text of each fn argument
    pub output: String,        // canonical text of return type ("" = unit)
    pub inner_attrs: Vec<String>, // inner attributes at the head of the body
    pub body: String,          // canonical text of the block
    pub body_ts: TokenStream,
}

#[derive(Debug, Clone)]
pub struct ImplIR {
    pub impl_attrs: Vec<String>,
    pub generics: String,
    pub trait_path: Vec<String>, // segments, leading "::" recorded as first element "::"
    pub trait_args: Vec<String>, // canonical text of generic args of the last trait segment
    pub self_ty: String,
    pub where_clause: String,
    pub assoc_types: Vec<(String, String)>,
    pub methods: Vec<MethodIR>,
    pub other_items: usize,
    pub text: String, // canonical text of the whole item
}

#[derive(Debug, Clone)]
pub enum OutIR {
    Impls(Vec<ImplIR>, usize /* non-impl items */),
    Unparsable(String),
}

fn c<T: ToTokens>(t: &T) -> String {
    canon(&t.to_token_stream())
}

pub fn analyse(ts: &TokenStream) -> OutIR {
    let file: syn::File = match syn::parse2(ts.clone()) {
        Ok(f) => f,
        Err(e) => return OutIR::Unparsable(e.to_string()),
    };
    let mut impls = Vec::new();
    let mut others = 0usize;
    for item in &file.items {
        match item {
            syn::Item::Impl(i) => impls.push(impl_ir(i)),
            _ => others += 1,
        }
    }
    OutIR::Impls(impls, others)
}

fn impl_ir(i: &syn::ItemImpl) -> ImplIR {
    let (trait_path, trait_args) = match &i.trait_ {
        Some((_, p, _)) => {
            let mut segs = Vec::new();
            if p.leading_colon.is_some() {
                segs.push("::".to_string());
            }
            for s in &p.segments {
                segs.push(s.ident.to_string());
            }
            let args = match &p.segments.last().unwrap().arguments {
                syn::PathArguments::AngleBracketed(a) => a.args.iter().map(|a| c(a)).collect(),
                _ => vec![],
            };
            (segs, args)
        }
        None => (vec![], vec![]),
    };
    let mut assoc_types = Vec::new();
    let mut methods = Vec::new();
    let mut other_items = 0;
    for it in &i.items {
        match it {
            syn::ImplItem::Type(t) => assoc_types.push((t.ident.to_string(), c(&t.ty))),
            syn::ImplItem::Fn(f) => {
                let mut outer = Vec::new();
                let mut inner = Vec::new();
                for a in &f.attrs {
                    match a.style {
                        syn::AttrStyle::Outer => outer.push(c(a)),
                        syn::AttrStyle::Inner(_) => inner.push(c(a)),
                    }
                }
                methods.push(MethodIR {
                    attrs: outer,
                    name: f.sig.ident.to_string(),
                    inputs: f.sig.inputs.iter().map(|a| c(a)).collect(),
                    output: match &f.sig.output {
                        syn::ReturnType::Default => String::new(),
                        syn::ReturnType::Type(_, t) => c(&**t),
                    },
                    inner_attrs: inner,
                    body: c(&f.block),
                    body_ts: f.block.to_token_stream(),
                });
            }
            _ => other_items += 1,
        }
    }
    ImplIR {
        impl_attrs: i.attrs.iter().map(|a| c(a)).collect(),
        generics: c(&i.generics.params),
        trait_path,
        trait_args,
        self_ty: c(&*i.self_ty),
        where_clause: i.generics.where_clause.as_ref().map(|w| c(w)).unwrap_or_default(),
        assoc_types,
        methods,
        other_items,
        text: c(i),
    }
}

/// The six conversion traits, by structural path.
#[derive(Debug, Clone, Copy, PartialEq, Eq, Hash, PartialOrd, Ord)]
pub enum TraitK {
    From,
    TryFrom,
    Into,
    TryInto,
    IntoExisting,
    TryIntoExisting,
}

impl TraitK {
    pub fn of_path(p: &[String]) -> Option<TraitK> {
        let v: Vec<&str> = p.iter().map(|s| s.as_str()).collect();
        match v.as_slice() {
            ["::", "core", "convert", "From"] => Some(TraitK::From),
            ["::", "core", "convert", "TryFrom"] => Some(TraitK::TryFrom),
            ["::", "core", "convert", "Into"] => Some(TraitK::Into),
            ["::", "core", "convert", "TryInto"] => Some(TraitK::TryInto),
            ["o2o", "traits", "IntoExisting"] => Some(TraitK::IntoExisting),
            ["o2o", "traits", "TryIntoExisting"] => Some(TraitK::TryIntoExisting),
            _ => None,
        }
    }
    pub fn method(self) -> &'static str {
        match self {
            TraitK::From => "from",
            TraitK::TryFrom => "try_from",
            TraitK::Into => "into",
            TraitK::TryInto => "try_into",
            TraitK::IntoExisting => "into_existing",
            TraitK::TryIntoExisting => "try_into_existing",
        }
    }
    pub fn fallible(self) -> bool {
        matches!(self, TraitK::TryFrom | TraitK::TryInto | TraitK::TryIntoExisting)
    }
}
