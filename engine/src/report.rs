//! Verdicts, known findings, replay artefacts and evidence files.

use crate::explore::ExploreStats;
use serde::{Deserialize, Serialize};
use serde_json::{json, Value};
use std::collections::hash_map::DefaultHasher;
use std::collections::{BTreeMap, HashSet};
use std::hash::{Hash, Hasher};
use std::sync::Mutex;
use std::time::Instant;

pub fn verif_dir() -> String {
    std::env::var("VERIF_DIR").unwrap_or_else(|_| "/verif".into())
}

pub fn h64<T: Hash + ?Sized>(t: &T) -> u64 {
    let mut h = DefaultHasher::new(); // SipHash with fixed keys: deterministic
    t.hash(&mut h);
    h.finish()
}

/// striped set of 64-bit hashes (distinct counting from many threads)
pub struct Distinct {
    stripes: Vec<Mutex<HashSet<u64>>>,
}

impl Default for Distinct {
    fn default() -> Self {
        Distinct { stripes: (0..64).map(|_| Mutex::new(HashSet::new())).collect() }
    }
}

impl Distinct {
    /// returns true if new
    pub fn add(&self, h: u64) -> bool {
        self.stripes[(h % 64) as usize].lock().unwrap().insert(h)
    }
    pub fn add_of<T: Hash + ?Sized>(&self, t: &T) -> bool {
        self.add(h64(t))
    }
    pub fn len(&self) -> u64 {
        self.stripes.iter().map(|s| s.lock().unwrap().len() as u64).sum()
    }
}

#[derive(Debug, Clone, Serialize, Deserialize)]
pub struct Failure {
    pub space: String,
    pub choices: Vec<u32>,
    pub input: String,
    #[serde(default)]
    pub aux: String, // counterpart source / second input of a metamorphic pair
    pub tags: Vec<String>,
    pub kind: String,
    pub detail: String,
    #[serde(default)]
    pub expected: String,
    #[serde(default)]
    pub observed: String,
}

#[derive(Debug, Clone, Deserialize)]
pub struct KfMatch {
    #[serde(default)]
    pub space: Option<String>,
    #[serde(default)]
    pub tags_all: Vec<String>,
    #[serde(default)]
    pub tags_none: Vec<String>,
    /// at least one of these must be present (when non-empty)
    #[serde(default)]
    pub tags_any: Vec<String>,
    pub failure_kind: String,
    /// some tag must match this regex (when given)
    #[serde(default)]
    pub tag_regex: Option<String>,
    /// the `causeclass=a@x+b@y+..` tag (which instructions were injected where): every regex here must match (as a
    /// whole) at least one of its `+`-separated parts - whatever other instructions the input carries (when non-empty)
    #[serde(default)]
    pub cause_all: Vec<String>,
    #[serde(default)]
    pub detail_regex: Option<String>,
    #[serde(default)]
    pub input_regex: Option<String>,
}

#[derive(Debug, Clone, Deserialize)]
pub struct KnownFinding {
    pub id: String,
    pub property: String,
    pub status: String, // "known" | "fixed"
    #[serde(default)]
    pub commit: Option<String>,
    pub title: String,
    #[serde(rename = "match")]
    pub m: KfMatch,
    #[serde(default)]
    pub example_input: String,
}

#[derive(Debug, Clone, Deserialize)]
pub struct KnownFindings {
    pub findings: Vec<KnownFinding>,
}

pub fn load_known() -> Vec<KnownFinding> {
    let p = format!("{}/known_findings.json", verif_dir());
    match std::fs::read_to_string(&p) {
        Ok(s) => match serde_json::from_str::<KnownFindings>(&s) {
            Ok(k) => k.findings,
            Err(e) => {
                eprintln!("MACHINERY-ERROR: cannot parse {}: {}", p, e);
                std::process::exit(2);
            }
        },
        Err(_) => vec![],
    }
}

fn cached_regex(r: &str, kid: &str) -> std::sync::Arc<regex::Regex> {
    use std::collections::HashMap;
    use std::sync::{Arc, OnceLock};
    static CACHE: OnceLock<Mutex<HashMap<String, Arc<regex::Regex>>>> = OnceLock::new();
    let c = CACHE.get_or_init(|| Mutex::new(HashMap::new()));
    let mut g = c.lock().unwrap();
    if let Some(x) = g.get(r) {
        return x.clone();
    }
    match regex::Regex::new(r) {
        Ok(re) => {
            let a = Arc::new(re);
            g.insert(r.to_string(), a.clone());
            a
        }
        Err(e) => {
            eprintln!("MACHINERY-ERROR: bad regex in known finding {}: {}", kid, e);
            std::process::exit(2);
        }
    }
}

fn tag_matches(pat: &str, tags: &[String]) -> bool {
    if let Some(prefix) = pat.strip_suffix('*') {
        tags.iter().any(|t| t.starts_with(prefix))
    } else {
        tags.iter().any(|t| t == pat)
    }
}

pub fn kf_matches(k: &KnownFinding, prop: &str, f: &Failure) -> bool {
    if k.property != prop || k.status != "known" {
        return false;
    }
    if let Some(s) = &k.m.space {
        if !(f.space == *s || f.space.starts_with(&format!("{}/", s))) {
            return false;
        }
    }
    if k.m.failure_kind != f.kind {
        return false;
    }
    if !k.m.tags_all.iter().all(|t| tag_matches(t, &f.tags)) {
        return false;
    }
    if k.m.tags_none.iter().any(|t| tag_matches(t, &f.tags)) {
        return false;
    }
    if !k.m.tags_any.is_empty() && !k.m.tags_any.iter().any(|t| tag_matches(t, &f.tags)) {
        return false;
    }
    if let Some(r) = &k.m.tag_regex {
        let re = cached_regex(r, &k.id);
        if !f.tags.iter().any(|t| re.is_match(t)) {
            return false;
        }
    }
    if !k.m.cause_all.is_empty() {
        let parts: Vec<&str> = match f.tags.iter().find_map(|t| t.strip_prefix("causeclass=")) {
            Some(c) => c.split('+').collect(),
            None => return false,
        };
        for r in &k.m.cause_all {
            let re = cached_regex(&format!("^(?:{})$", r), &k.id);
            if !parts.iter().any(|p| re.is_match(p)) {
                return false;
            }
        }
    }
    if let Some(r) = &k.m.detail_regex {
        if !cached_regex(r, &k.id).is_match(&f.detail) {
            return false;
        }
    }
    if let Some(r) = &k.m.input_regex {
        if !cached_regex(r, &k.id).is_match(&f.input) {
            return false;
        }
    }
    true
}

pub struct Report {
    pub prop: String,
    pub tier: String,
    pub level: String,
    pub seed: i64,
    pub start: Instant,
    pub failures: Mutex<Vec<Failure>>,
    pub counters: Mutex<BTreeMap<String, u64>>,
    pub samples: Mutex<Vec<Value>>,
    pub states: Distinct,
    pub nontrivial: Distinct,
    pub outputs: Distinct,
    pub spaces: Mutex<Vec<Value>>,
    pub stats: Mutex<ExploreStats>,
    pub rule: Mutex<String>,
    pub assumptions: Mutex<Vec<String>>,
    pub extra: Mutex<BTreeMap<String, Value>>,
    pub evaluations: std::sync::atomic::AtomicU64,
    pub validated: std::sync::atomic::AtomicU64,
    pub max_failures_kept: usize,
    /// known findings, loaded once; failures matching a `known` entry are counted here and not stored
    pub known: Vec<KnownFinding>,
    pub kf_hits: Mutex<BTreeMap<String, (String, u64, String)>>,
    pub dropped_violations: std::sync::atomic::AtomicU64,
}

impl Report {
    pub fn new(prop: &str, tier: &str, level: &str) -> Report {
        Report {
            prop: prop.into(),
            tier: tier.into(),
            level: level.into(),
            seed: std::env::var("VERIF_SEED").ok().and_then(|s| s.parse().ok()).unwrap_or(0),
            start: Instant::now(),
            failures: Mutex::new(vec![]),
            counters: Mutex::new(BTreeMap::new()),
            samples: Mutex::new(vec![]),
            states: Distinct::default(),
            nontrivial: Distinct::default(),
            outputs: Distinct::default(),
            spaces: Mutex::new(vec![]),
            stats: Mutex::new(ExploreStats::default()),
            rule: Mutex::new(String::new()),
            assumptions: Mutex::new(vec![]),
            extra: Mutex::new(BTreeMap::new()),
            evaluations: Default::default(),
            validated: Default::default(),
            max_failures_kept: 200_000,
            known: load_known(),
            kf_hits: Mutex::new(BTreeMap::new()),
            dropped_violations: Default::default(),
        }
    }
    pub fn count(&self, key: &str, n: u64) {
        *self.counters.lock().unwrap().entry(key.to_string()).or_insert(0) += n;
    }
    pub fn eval(&self, n: u64) {
        self.evaluations.fetch_add(n, std::sync::atomic::Ordering::Relaxed);
    }
    pub fn validate(&self, n: u64) {
        self.validated.fetch_add(n, std::sync::atomic::Ordering::Relaxed);
    }
    pub fn fail(&self, f: Failure) {
        // triage immediately: known findings are only counted, so that no cap can hide an unlisted violation
        if let Some(k) = self.known.iter().find(|k| kf_matches(k, &self.prop, &f)) {
            let mut h = self.kf_hits.lock().unwrap();
            let e = h.entry(k.id.clone()).or_insert((k.title.clone(), 0, f.input.clone()));
            e.1 += 1;
            return;
        }
        let mut v = self.failures.lock().unwrap();
        if v.len() < self.max_failures_kept {
            v.push(f);
        } else {
            drop(v);
            self.dropped_violations.fetch_add(1, std::sync::atomic::Ordering::Relaxed);
        }
    }
    pub fn sample(&self, v: Value) {
        let mut s = self.samples.lock().unwrap();
        if s.len() < 12 {
            s.push(v);
        }
    }
    pub fn want_sample(&self) -> bool {
        self.samples.lock().unwrap().len() < 12
    }
    pub fn add_stats(&self, space: &str, bound: &str, st: &ExploreStats) {
        let mut s = self.stats.lock().unwrap();
        s.leaves += st.leaves;
        s.pruned += st.pruned;
        s.transitions += st.transitions;
        s.max_depth = s.max_depth.max(st.max_depth);
        if st.capped {
            s.capped = true;
            s.cap_reason = st.cap_reason.clone();
        }
        self.spaces.lock().unwrap().push(json!({"space": space, "bound": bound, "leaves": st.leaves, "pruned": st.pruned, "transitions": st.transitions,
            "max_choice_depth": st.max_depth, "completed": !st.capped, "cap": st.cap_reason}));
    }
    pub fn set_rule(&self, r: &str) {
        *self.rule.lock().unwrap() = r.to_string();
    }
    pub fn assume(&self, a: &str) {
        self.assumptions.lock().unwrap().push(a.to_string());
    }
    pub fn put(&self, k: &str, v: Value) {
        self.extra.lock().unwrap().insert(k.to_string(), v);
    }

    /// Triage failures against known findings, write replays + evidence, print verdict lines; returns exit code.
    pub fn finish(&self) -> i32 {
        let known = &self.known;
        let mut failures = self.failures.lock().unwrap().clone();
        failures.sort_by(|a, b| (&a.space, &a.choices, &a.kind, &a.detail).cmp(&(&b.space, &b.choices, &b.kind, &b.detail)));
        let kf_hits: BTreeMap<String, (String, u64, String)> = self.kf_hits.lock().unwrap().clone();
        let violations: Vec<&Failure> = failures.iter().collect();
        let dropped = self.dropped_violations.load(std::sync::atomic::Ordering::Relaxed);
        for (id, (title, n, _)) in &kf_hits {
            println!("KNOWN-FINDING: property={} {} {} ({} cases)", self.prop, id, title, n);
        }
        // known findings that no longer reproduce are only reported (status should be moved to fixed by a human)
        for k in known.iter().filter(|k| k.property == self.prop && k.status == "known") {
            if !kf_hits.contains_key(&k.id) {
                println!("note: known finding {} not hit in this run (tier {})", k.id, self.tier);
            }
        }

        let replay_dir = format!("{}/replays/{}", verif_dir(), self.prop);
        let _ = std::fs::remove_dir_all(&replay_dir); // artefacts of earlier runs are stale
        let mut printed = 0;
        // group violations by (kind, normalised detail) so the first lines show distinct problems
        let mut groups: BTreeMap<(String, String), Vec<&Failure>> = BTreeMap::new();
        for v in &violations {
            groups.entry((v.kind.clone(), crate::xp::trunc(&v.detail, 120))).or_default().push(v);
        }
        if !violations.is_empty() {
            let _ = std::fs::create_dir_all(&replay_dir);
        }
        let mut group_summ = vec![];
        for ((kind, detail), vs) in &groups {
            // tags common to every case of the group (helps writing narrow known-finding predicates)
            let mut common: Vec<String> = vs[0].tags.clone();
            for v in vs.iter() {
                common.retain(|t| v.tags.contains(t));
            }
            group_summ.push(json!({"kind": kind, "detail": detail, "cases": vs.len(), "common_tags": common}));
            if std::env::var("VERIF_GROUP_TAGS").is_ok() {
                let mut hist: BTreeMap<String, usize> = BTreeMap::new();
                for v in vs.iter() {
                    for t in &v.tags {
                        *hist.entry(t.clone()).or_insert(0) += 1;
                    }
                }
                println!("GROUP kind={} detail={} cases={} common={:?}", kind, detail, vs.len(), common);
                let mut causes: BTreeMap<String, usize> = BTreeMap::new();
                for v in vs.iter() {
                    for t in v.tags.iter().filter(|t| t.starts_with("causeclass=") || t.starts_with("enum+")) {
                        *causes.entry(t.clone()).or_insert(0) += 1;
                    }
                }
                println!("   causes: {:?}", causes);
                let mut hv: Vec<_> = hist.into_iter().collect();
                hv.sort_by(|a, b| b.1.cmp(&a.1));
                println!("   tags: {:?}", hv.iter().take(60).collect::<Vec<_>>());
            }
            for v in vs.iter().take(3) {
                if printed >= 40 {
                    break;
                }
                let name = format!("{:016x}.json", h64(&(&v.space, &v.choices, &v.kind, &v.detail)));
                let path = format!("{}/{}", replay_dir, name);
                let body = json!({"property": self.prop, "tier": self.tier, "failure": v});
                let _ = std::fs::write(&path, serde_json::to_string_pretty(&body).unwrap());
                println!("VIOLATION property={} replay={}", self.prop, path);
                println!("  kind={} detail={}", v.kind, crate::xp::trunc(&v.detail, 400));
                println!("  input: {}", crate::xp::trunc(&v.input.replace('\n', " "), 400));
                printed += 1;
            }
        }
        if !violations.is_empty() {
            println!("violations: {} cases in {} groups (first {} written as replays){}", violations.len() as u64 + dropped, groups.len(), printed, if dropped > 0 { format!("; {} more over the in-memory cap", dropped) } else { String::new() });
        }

        let st = self.stats.lock().unwrap().clone();
        let evaluations = self.evaluations.load(std::sync::atomic::Ordering::Relaxed);
        let validated = self.validated.load(std::sync::atomic::Ordering::Relaxed);
        let states = self.states.len();
        let wall = self.start.elapsed().as_secs_f64();
        let mut coverage = serde_json::Map::new();
        coverage.insert("states".into(), json!(states));
        coverage.insert("transitions".into(), json!(st.transitions));
        coverage.insert("traces_validated_against_impl".into(), json!(validated));
        coverage.insert("evaluations".into(), json!(evaluations));
        coverage.insert("distinct_nontrivial".into(), json!(self.nontrivial.len()));
        coverage.insert("distinct_outputs".into(), json!(self.outputs.len()));
        coverage.insert("rule".into(), json!(self.rule.lock().unwrap().clone()));
        coverage.insert("samples".into(), json!(self.samples.lock().unwrap().clone()));
        coverage.insert("exhaustive".into(), json!(!st.capped));
        coverage.insert("choice_vectors".into(), json!(st.leaves));
        coverage.insert("pruned".into(), json!(st.pruned));
        coverage.insert("caps_hit".into(), json!(st.cap_reason.iter().collect::<Vec<_>>()));
        coverage.insert("spaces".into(), json!(self.spaces.lock().unwrap().clone()));
        coverage.insert("counters".into(), json!(self.counters.lock().unwrap().clone()));
        coverage.insert(
            "known_findings_hit".into(),
            json!(kf_hits.iter().map(|(k, v)| (k.clone(), json!({"title": v.0, "cases": v.1, "example": crate::xp::trunc(&v.2, 300)}))).collect::<BTreeMap<_, _>>()),
        );
        coverage.insert("violation_groups".into(), json!(group_summ));
        for (k, v) in self.extra.lock().unwrap().iter() {
            coverage.insert(k.clone(), v.clone());
        }
        let ev = json!({
            "property_id": self.prop,
            "tier": self.tier,
            "seed": self.seed,
            "level": self.level,
            "coverage": Value::Object(coverage),
            "assumptions": self.assumptions.lock().unwrap().clone(),
            "wall_s": (wall * 100.0).round() / 100.0,
            "violations": violations.len() as u64 + dropped,
        });
        let evdir = format!("{}/evidence", verif_dir());
        let _ = std::fs::create_dir_all(&evdir);
        let evpath = format!("{}/{}.json", evdir, self.prop);
        if let Err(e) = std::fs::write(&evpath, serde_json::to_string_pretty(&ev).unwrap()) {
            eprintln!("MACHINERY-ERROR: cannot write evidence {}: {}", evpath, e);
            return 2;
        }
        println!(
            "{} tier={} states={} evaluations={} validated={} nontrivial={} outputs={} choice_vectors={} pruned={} exhaustive={} known_hits={} violations={} wall={:.1}s",
            self.prop, self.tier, states, evaluations, validated, self.nontrivial.len(), self.outputs.len(), st.leaves, st.pruned, !st.capped,
            kf_hits.values().map(|v| v.1).sum::<u64>(), violations.len(), wall
        );
        if !violations.is_empty() {
            return 1;
        }
        // vacuity guards: machinery errors, not verdicts
        if states == 0 || evaluations == 0 {
            eprintln!("MACHINERY-ERROR: vacuous run (no states / evaluations)");
            return 2;
        }
        if self.outputs.len() <= 1 && evaluations > 1 {
            eprintln!("MACHINERY-ERROR: vacuous run (all executions produced one outcome)");
            return 2;
        }
        0
    }
}
