#!/bin/bash
# MANIFEST.setup_cmd: offline build of the engine (all three flavours) from files on disk only.
set -eu
cd "$(dirname "$0")"
export CARGO_NET_OFFLINE=true
mkdir -p work evidence
( cd engine && cargo build --release --offline )
( cd engine && CARGO_TARGET_DIR=target-b2 cargo build --release --offline --no-default-features --features b2 ) || echo "note: b2 flavour not built"
( cd engine && CARGO_TARGET_DIR=target-hooks RUSTFLAGS="--cfg o2o_verif" cargo build --release --offline ) || echo "note: hooks flavour not built"
echo setup-ok
